"""Reference big-step, environment-based call-by-value interpreter (oracle for C02/C06/C04/C01).

Independent of gram's substitution-based evaluator: variables are looked up in an environment,
functions are closures, definition groups are evaluated in order with letrec back-patching (a
definition may mention any group member under a lambda; mentioning a member that has not been
evaluated yet, outside a lambda, is stuck)."""
from .values import InternalError, z_eq, is_sym
from . import terms as T
from .inputs import InputTerm
from .methods import trunc_div


class Stuck(Exception):
    def __init__(self, why):
        Exception.__init__(self, why)
        self.why = why


class OutOfFuel(Exception):
    pass


class BigStep:
    def __init__(self, ex, concretize, fuel=1000):
        self.ex = ex
        self.concretize = concretize
        self.fuel = fuel

    def view(self, t):
        if isinstance(t, InputTerm) and self.concretize is not None:
            self.concretize(self.ex, t)
        vs = T.views(self.ex, t)
        if len(vs) != 1:
            raise InternalError("big-step reference needs a concrete constructor")
        return vs[0][1], vs[0][2]

    def eval(self, t, env):
        self.fuel -= 1
        if self.fuel < 0:
            raise OutOfFuel()
        ct, adt = self.view(t)
        f = adt.fields
        if ct in ("Type", "Integer", "Boolean"):
            return ("ctor", ct)
        if ct == "Pi":
            return ("ctor", "Pi")
        if ct == "True" or ct == "False":
            return ("ctor", ct)
        if ct == "IntegerLiteral":
            return ("lit", f[0].v)
        if ct == "Lambda":
            return ("clo", f[3], env)
        if ct == "Variable":
            idx = f[1]
            if is_sym(idx):
                # pin the index (the real evaluator has usually done so already)
                n = len(env)
                k = self.ex.decide([idx == i for i in range(n)] + [idx >= n])
                idx = k
            if idx >= len(env):
                raise Stuck("free variable")
            cell = env[len(env) - 1 - idx]
            if cell[0] is None:
                raise Stuck("definition not yet available")
            return cell[0]
        if ct == "Unifier":
            raise Stuck("unresolved hole")
        if ct == "Application":
            fv = self.eval(f[0], env)
            av = self.eval(f[1], env)
            if fv[0] != "clo":
                raise Stuck("call of a non-function")
            return self.eval(fv[1], fv[2] + [[av]])
        if ct.startswith("Let"):
            defs, body = f
            cells = [[None] for _ in defs]
            env2 = env + cells
            for i, (x, ann, d) in enumerate(defs):
                cells[i][0] = self.eval(d, env2)
            return self.eval(body, env2)
        if ct == "Negation":
            v = self.eval(f[0], env)
            if v[0] != "lit":
                raise Stuck("negation of a non-integer")
            return ("lit", -v[1])
        if ct == "If":
            c = self.eval(f[0], env)
            if c == ("ctor", "True"):
                return self.eval(f[1], env)
            if c == ("ctor", "False"):
                return self.eval(f[2], env)
            raise Stuck("condition is not a Boolean")
        # binary operators
        l = self.eval(f[0], env)
        r = self.eval(f[1], env)
        if l[0] != "lit" or r[0] != "lit":
            raise Stuck("operand is not an integer")
        a, b = l[1], r[1]
        if ct == "Sum":
            return ("lit", a + b)
        if ct == "Difference":
            return ("lit", a - b)
        if ct == "Product":
            return ("lit", a * b)
        if ct == "Quotient":
            if self.ex.branch(z_eq(b, 0)) if is_sym(b) else b == 0:
                raise Stuck("division by zero")
            return ("lit", trunc_div(a, b))
        cond = {"LessThan": lambda: a < b, "LessThanOrEqualTo": lambda: a <= b, "EqualTo": lambda: z_eq(a, b),
                "GreaterThan": lambda: a > b, "GreaterThanOrEqualTo": lambda: a >= b}[ct]()
        if isinstance(cond, bool):
            return ("ctor", "True" if cond else "False")
        return ("ctor", "True" if self.ex.branch(cond) else "False")

    def ground(self, v):
        if v[0] == "lit":
            return ("lit", v[1])
        if v[0] == "clo":
            return ("ctor", "Lambda")
        return ("ctor", v[1])
