"""Path exploration by re-execution (DART style) with an incremental z3 context.

A harness body `thunk(ex)` is run once per path.  Whenever control depends on a symbolic value the
body calls `ex.decide(guards)` (or `branch`, `decide_ctor`); the explorer replays the recorded prefix
of decisions, and at the first new decision point checks every alternative for feasibility under the
path condition, follows the first feasible one and queues the others.

Obligations are discharged with `ex.check(prop)`: the query is `PC and not prop`; `unsat` means the
property holds for every value on this path, `sat` yields a model that the harness turns into a
concrete input and replays against the compiled code.
"""
import time
import z3

from .values import InternalError, z_and, z_not, z_or


class PathAbort(Exception):
    """Path is infeasible or outside the stated bound; it is dropped silently."""

    def __init__(self, why="infeasible"):
        self.why = why


class FuelExhausted(Exception):
    pass


class SplitPoint(Exception):
    """Raised at the first new decision below the split depth (parallel exploration)."""


class Inconclusive(Exception):
    pass


class Violation:
    def __init__(self, label, model, info, trace):
        self.label = label
        self.model = model
        self.info = info
        self.trace = trace


class Frame:
    def __init__(self, solver):
        self.solver = solver
        self.worklist = []
        self.reset_path([])

    def reset_path(self, trace):
        self.trace = list(trace)
        self.pos = 0
        self.pc = []
        self.allowed = {}
        self.store = {}
        self.model = None
        self.nodes_used = 0
        self.counter = 0
        self.events = []
        self.locals = {}
        self.touched = set()
        self.dguards = []


class Stats:
    def __init__(self):
        self.paths = 0
        self.aborted = 0
        self.decisions = 0
        self.solver_checks = 0
        self.solver_time = 0.0
        self.model_hits = 0
        self.obligations = 0
        self.discharged = 0
        self.sat = 0
        self.unknown = 0
        self.fuel_paths = 0
        self.panic_paths = 0
        self.max_trace = 0
        self.summaries = 0
        self.summary_paths = 0

    def as_dict(self):
        return dict(self.__dict__)


class Explorer:
    def __init__(self, assumptions=(), solver_timeout_ms=60000, node_budget=None, max_paths=None,
                 deadline=None):
        self.assumptions = list(assumptions)
        self.solver_timeout_ms = solver_timeout_ms
        self.node_budget = node_budget
        self.max_paths = max_paths
        self.deadline = deadline
        self.stats = Stats()
        self.frames = []
        self.violations = []
        self.summaries = {}
        self.samples = []
        self.functions_executed = set()
        self.exhausted = True
        self.fuel = 10 ** 9
        self.eval_left = 10 ** 12
        self.on_violation = None
        self.split_depth = None
        self.keep_leftover = False
        self.leftover = []
        self.frontier = []
        self.counters = {}

    # ----------------------------------------------------------------------------------------
    @property
    def f(self):
        return self.frames[-1]

    def _new_solver(self):
        s = z3.Solver()
        # a resource limit rather than a wall-clock timeout: z3's timer threads do not survive fork()
        s.set("rlimit", int(self.solver_timeout_ms) * 20000)
        for a in self.assumptions:
            s.add(a)
        return s

    def _check(self, *extra):
        t0 = time.time()
        r = self.f.solver.check(*extra)
        self.stats.solver_checks += 1
        self.stats.solver_time += time.time() - t0
        return r

    # ----------------------------------------------------------------------------------------
    def explore(self, thunk, on_end=None, initial_traces=None, breadth_first_until=None):
        """Run `thunk(self)` along every feasible path.  `on_end(ex, outcome)` is called at the end
        of every completed path with outcome = ('ok', value) | ('panic', PanicEx) | ('fuel', None)."""
        from .interp import PanicEx
        frame = Frame(self._new_solver())
        self.frames.append(frame)
        frame.worklist = [list(t) for t in (initial_traces or [[]])]
        try:
            while frame.worklist:
                if self.max_paths is not None and self.stats.paths >= self.max_paths:
                    self.exhausted = False
                    break
                if self.deadline is not None and time.time() > self.deadline:
                    if self.keep_leftover:
                        self.leftover = [list(t) for t in frame.worklist]
                        frame.worklist = []
                    else:
                        self.exhausted = False
                    break
                if breadth_first_until is not None:
                    # splitting phase of a parallel exploration: shallow paths first, stop as soon
                    # as enough unexplored subtrees are pending; they are handed to the workers
                    if len(frame.worklist) >= breadth_first_until:
                        self.frontier = [list(t) for t in frame.worklist]
                        frame.worklist = []
                        break
                    trace = frame.worklist.pop(0)
                else:
                    trace = frame.worklist.pop()
                frame.reset_path(trace)
                self.fuel_left = self.fuel
                self.eval_left = self.fuel * 40
                frame.solver.push()
                try:
                    try:
                        value = thunk(self)
                        outcome = ("ok", value)
                    except PanicEx as p:
                        outcome = ("panic", p)
                        self.stats.panic_paths += 1
                    except FuelExhausted:
                        outcome = ("fuel", None)
                        self.stats.fuel_paths += 1
                    except RecursionError:
                        outcome = ("fuel", None)
                        self.stats.fuel_paths += 1
                    self.stats.paths += 1
                    self.stats.max_trace = max(self.stats.max_trace, len(frame.trace))
                    if on_end is not None:
                        on_end(self, outcome)
                except PathAbort:
                    self.stats.aborted += 1
                except SplitPoint:
                    self.frontier.append(list(frame.trace[:frame.pos]))
                finally:
                    frame.solver.pop()
        finally:
            self.frames.pop()

    # ----------------------------------------------------------------------------------------
    def add(self, formula):
        """Assert a formula on the current path (no feasibility check)."""
        if formula is True:
            return
        if formula is False:
            raise PathAbort()
        fr = self.f
        fr.solver.add(formula)
        fr.pc.append(formula)
        if fr.model is not None:
            try:
                if not z3.is_true(fr.model.eval(formula, model_completion=True)):
                    fr.model = None
            except z3.Z3Exception:
                fr.model = None

    def assume(self, formula):
        """Restrict the path; abort it if the restriction is infeasible.  Recorded as a decision
        with a single option so that merged summaries know the region they cover."""
        if formula is True:
            return
        if formula is False:
            raise PathAbort("assume")
        self.decide([formula])

    def feasible(self, g):
        if g is True:
            return True
        if g is False:
            return False
        fr = self.f
        if fr.model is not None:
            try:
                if z3.is_true(fr.model.eval(g, model_completion=True)):
                    self.stats.model_hits += 1
                    return True
            except z3.Z3Exception:
                pass
        r = self._check(g)
        if r == z3.sat:
            fr.model = fr.solver.model()
            return True
        if r == z3.unknown:
            # over-approximate: explore it; the final obligation decides
            self.stats.unknown += 1
            return True
        return False

    def decide(self, guards):
        """Choose one of mutually exclusive alternatives.  Returns the index followed."""
        fr = self.f
        self.stats.decisions += 1
        n = len(guards)
        if fr.pos < len(fr.trace):
            idx = fr.trace[fr.pos]
            fr.pos += 1
            if idx >= n:
                raise InternalError("replay divergence: %d options, trace wants %d" % (n, idx))
            fr.dguards.append(guards[idx])
            self.add(guards[idx])
            return idx
        if self.split_depth is not None and len(self.frames) == 1 and len(fr.trace) >= self.split_depth:
            raise SplitPoint()
        feas = []
        first_model = None
        for i, g in enumerate(guards):
            if self.feasible(g):
                if not feas:
                    first_model = fr.model
                feas.append(i)
        if not feas:
            raise PathAbort()
        for j in reversed(feas[1:]):
            fr.worklist.append(fr.trace + [j])
        idx = feas[0]
        fr.trace.append(idx)
        fr.pos += 1
        fr.model = first_model
        fr.dguards.append(guards[idx])
        self.add(guards[idx])
        return idx

    def branch(self, cond):
        """Fork on a Boolean; returns a Python bool."""
        if cond is True or cond is False:
            return cond
        if isinstance(cond, bool):
            return cond
        if z3.is_true(cond):
            return True
        if z3.is_false(cond):
            return False
        return self.decide([cond, z3.Not(cond)]) == 0

    def choose(self, n):
        """Unconstrained n-way choice (e.g. an iteration order)."""
        return self.decide([True] * n)

    # ----------------------------------------------------------------------------------------
    # symbolic constructor tags of input nodes
    def touch(self, node):
        fr = self.f
        if node.uid not in fr.touched:
            fr.touched.add(node.uid)
            for c in node.domain_constraints(self):
                self.add(c)

    def allowed(self, node):
        a = self.f.allowed.get(node.uid)
        if a is None:
            self.touch(node)
            a = node.allowed0
        return a

    def restrict(self, node, ctors):
        """Record that node's constructor is in `ctors` (already known feasible)."""
        fr = self.f
        cur = self.allowed(node)
        new = cur & ctors
        if not new:
            raise PathAbort()
        if new != cur:
            fr.allowed[node.uid] = new
            self.add(node.tag_in(new))

    def decide_ctor(self, node, ctors):
        """Is node's constructor in `ctors`?  Forks if both answers are possible."""
        cur = self.allowed(node)
        yes = cur & ctors
        no = cur - ctors
        fr = self.f
        if self.node_budget is not None and yes and ("counted", node.uid) not in fr.locals:
            # a decided node brings its children into existence; keep the term within the budget
            yes = frozenset(c for c in yes if node.decided_cost(c, self) <= self.node_budget - fr.nodes_used)
        self.stats.decisions += 1
        if yes and no:
            if fr.pos < len(fr.trace):
                idx = fr.trace[fr.pos]
                fr.pos += 1
            else:
                if self.split_depth is not None and len(self.frames) == 1 and len(fr.trace) >= self.split_depth:
                    raise SplitPoint()
                fr.worklist.append(fr.trace + [1])
                fr.trace.append(0)
                fr.pos += 1
                idx = 0
            took = idx == 0
        elif yes:
            took = True
        elif no:
            took = False
        else:
            raise PathAbort("budget")
        new = yes if took else no
        if yes and no:
            fr.dguards.append(node.tag_in(new))
        if new != cur:
            fr.allowed[node.uid] = new
            self.add(node.tag_in(new))
        if took:
            node.on_decided(new, self)
        return took

    # ----------------------------------------------------------------------------------------
    def check(self, prop, label, info=None):
        """Obligation: prop must hold on this path for all values.  Returns True if discharged."""
        self.stats.obligations += 1
        if prop is True:
            self.stats.discharged += 1
            return True
        fr = self.f
        neg = z_not(prop)
        if neg is False:
            self.stats.discharged += 1
            return True
        r = self._check(neg) if neg is not True else self._check()
        if r == z3.unsat:
            self.stats.discharged += 1
            return True
        if r == z3.unknown:
            self.stats.unknown += 1
            self.exhausted = False
            return False
        self.stats.sat += 1
        model = fr.solver.model()
        v = Violation(label, model, info(model) if callable(info) else info, list(fr.trace))
        self.violations.append(v)
        if self.on_violation is not None:
            self.on_violation(self, v)
        return False

    def check_adaptive(self, prop, label, root, info=None, try_rlimit=40000000, max_depth=3):
        """Like check, but splits the query by constructor tags of the input template (root first,
        then its children) whenever the solver gives up on the undivided query."""
        from .inputs import ARITY, CODE, CTORS
        fr = self.f
        neg = z_not(prop)
        if neg is False:
            self.stats.obligations += 1
            self.stats.discharged += 1
            return True
        ok = [True]

        def attempt(limit):
            fr.solver.set("rlimit", limit)
            try:
                return self._check(neg)
            finally:
                fr.solver.set("rlimit", int(self.solver_timeout_ms) * 20000)

        def rec(pending, depth):
            r = attempt(try_rlimit if (pending and depth < max_depth) else int(self.solver_timeout_ms) * 20000)
            if r == z3.unsat:
                self.stats.obligations += 1
                self.stats.discharged += 1
                return
            if r == z3.sat:
                self.stats.obligations += 1
                self.stats.sat += 1
                model = fr.solver.model()
                v = Violation(label, model, info(model) if callable(info) else info, list(fr.trace))
                self.violations.append(v)
                ok[0] = False
                return
            if not pending or depth >= max_depth:
                self.stats.obligations += 1
                self.stats.unknown += 1
                self.exhausted = False
                ok[0] = False
                return
            node = pending[0]
            for ct in sorted(self.allowed(node), key=CTORS.index):
                fr.solver.push()
                fr.solver.add(node.tag == CODE[ct])
                try:
                    if self._check() != z3.unsat:
                        rec(pending[1:] + [node.kid(i) for i in range(ARITY[ct])], depth + 1)
                finally:
                    fr.solver.pop()

        rec([root], 0)
        return ok[0]

    def path_model(self):
        """A model of the current path condition (None if infeasible/unknown)."""
        fr = self.f
        if fr.model is not None:
            return fr.model
        r = self._check()
        if r == z3.sat:
            fr.model = fr.solver.model()
            return fr.model
        return None

    # ----------------------------------------------------------------------------------------
    def fresh(self, prefix):
        fr = self.f
        fr.counter += 1
        return "%s!%d" % (prefix, fr.counter)

    def cell_get(self, cell):
        if cell.persistent:
            st = self.f.store
            if cell.cid in st:
                return st[cell.cid]
            return cell.init
        return cell.content

    def cell_set(self, cell, v):
        if cell.persistent:
            self.f.store[cell.cid] = v
        else:
            cell.content = v

    def count(self, key, n=1):
        self.counters[key] = self.counters.get(key, 0) + n

    def event(self, kind, **kw):
        self.f.events.append((kind, kw))

    def tick(self):
        self.fuel_left -= 1
        if self.fuel_left < 0:
            raise FuelExhausted()
