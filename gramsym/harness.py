"""Common driver for the per-property checks: tiers, seeds, evidence, replay-before-report,
known findings, exit codes (0 = held, 1 = reproduced unlisted violation, 2 = inconclusive)."""
import argparse
import hashlib
import json
import os
import random
import sys
import threading
import time
import traceback

import z3

from .loader import load_ast, find_unsupported, VERIF, REPO
from .explorer import Explorer, Inconclusive
from .interp import Interp
from .values import InternalError
from . import methods
from .replay import ReplayClient

EVIDENCE_DIR = os.path.join(VERIF, "evidence")
REPLAY_DIR = os.path.join(VERIF, "replays")
KNOWN_FINDINGS = os.path.join(VERIF, "known_findings.json")

STUBS = [
    "Rc/RefCell: reference counting and borrow flags not modelled (Rc::ptr_eq = object identity)",
    "Vec/Option/Result/iterator adaptors: modelled in gramsym/methods.py",
    "BigInt: mathematical integers; checked_div = truncation toward zero, None on zero divisor",
    "usize/isize: mathematical integers below 2^62; usize subtraction below zero is a panic event",
    "HashSet/HashMap: association lists; iteration order is a nondeterministic choice where enabled",
    "error::throw / error::listing: stubbed (message template + source range remembered) unless the check is about listing",
    "format!/to_string/code_str/colored: opaque strings",
]


def load_known_findings():
    if not os.path.exists(KNOWN_FINDINGS):
        return []
    with open(KNOWN_FINDINGS) as fh:
        return json.load(fh)["findings"]


class Harness:
    def __init__(self, pid, argv=None, description=""):
        ap = argparse.ArgumentParser(description=description or pid)
        ap.add_argument("--tier", default=os.environ.get("VERIF_TIER", "quick"), choices=["quick", "thorough"])
        ap.add_argument("--seed", type=int, default=int(os.environ.get("VERIF_SEED", "0") or 0))
        ap.add_argument("--replay", default=None, help="re-run a recorded replay file against the compiled code")
        ap.add_argument("--jobs", type=int, default=int(os.environ.get("VERIF_JOBS", "0") or 0))
        ap.add_argument("--no-evidence", action="store_true")
        self.args = ap.parse_args(argv)
        self.pid = pid
        self.tier = self.args.tier
        self.seed = self.args.seed
        self.rng = random.Random(self.seed)
        self.jobs = self.args.jobs or (os.cpu_count() or 1)
        self.t0 = time.time()
        self.violations = []          # reproduced, unlisted
        self.known_hits = {}          # finding id -> count
        self.mismatches = []          # counterexamples that did not reproduce (encoder problem)
        self.inconclusive = []        # reasons
        self.samples = []
        self.bounds = {}
        self.parts = {}               # name -> stats dict
        self.validated = 0
        self.assumptions = []
        self.functions = set()
        self.known = [f for f in load_known_findings() if f.get("property") == pid or pid in f.get("properties", [])]
        self.printed_known = set()
        self.ast, self.hashes = load_ast()
        uns = find_unsupported(self.ast)
        self.unsupported = uns
        self.replay = None
        from .parallel import is_worker
        self.worker = is_worker()

    # ------------------------------------------------------------------------------------
    def log(self, *a):
        print("[%s %6.1fs]" % (self.pid, time.time() - self.t0), *a, flush=True)

    def get_replay(self):
        if self.replay is None:
            self.replay = ReplayClient("dev")
            self.log("gram-replay built from %s in %.1fs" % (REPO, self.replay.build_s))
        return self.replay

    def engine(self, assumptions=(), stubs=True, **kw):
        ex = Explorer(assumptions=assumptions, **kw)
        it = Interp(self.ast, ex)
        if stubs:
            methods.install_default_stubs(it)
        return ex, it

    def absorb(self, name, ex):
        """Record the statistics of a finished exploration."""
        st = ex.stats.as_dict()
        st["exhaustive"] = ex.exhausted
        self.parts[name] = st
        self.functions |= ex.functions_executed
        if ex.stats.unknown:
            self.inconclusive.append("%s: %d solver answers were unknown" % (name, ex.stats.unknown))
        if st.get("panic_paths"):
            # a harness that lets a panic of the real code escape must not pass silently
            self.inconclusive.append("%s: %d paths ended in a panic of the real code that the harness did not report" % (name, st["panic_paths"]))
        if not ex.exhausted:
            self.inconclusive.append("%s: exploration stopped before the frontier was empty" % name)

    def absorb_merged(self, name, m):
        st = dict(m.stats)
        st["exhaustive"] = m.exhausted
        st["workers"] = m.workers
        st["counters"] = dict(m.counters)
        self.parts[name] = st
        self.functions |= m.functions
        if m.errors:
            self.inconclusive.append("%s: worker error: %s" % (name, m.errors[0][-600:]))
        if m.stats.get("unknown"):
            self.inconclusive.append("%s: %d solver answers were unknown" % (name, m.stats["unknown"]))
        if m.stats.get("panic_paths"):
            self.inconclusive.append("%s: %d paths ended in a panic of the real code that the harness did not report" % (name, m.stats["panic_paths"]))
        if not m.exhausted and not m.errors:
            self.inconclusive.append("%s: exploration stopped before the frontier was empty" % name)
        for s in m.samples:
            if len(self.samples) < 12:
                self.samples.append(s)

    # ------------------------------------------------------------------------------------
    # violations
    def known_finding(self, fid):
        for f in self.known:
            if f["id"] == fid and f.get("status") == "known":
                return f
        return None

    def report(self, label, case, reproduced, detail, finding=None):
        """Called with a concrete counterexample after it has been replayed on the compiled code."""
        if not reproduced:
            self.mismatches.append({"label": label, "case": case, "detail": detail})
            self.log("ENCODER-MISMATCH %s: counterexample did not reproduce on the compiled code: %s" % (label, detail))
            return
        if finding is not None:
            f = self.known_finding(finding)
            if f is not None:
                self.known_hits[finding] = self.known_hits.get(finding, 0) + 1
                if finding not in self.printed_known:
                    self.printed_known.add(finding)
                    print("KNOWN-FINDING: property=%s %s" % (self.pid, f["summary"]), flush=True)
                return
        os.makedirs(REPLAY_DIR, exist_ok=True)
        blob = json.dumps({"property": self.pid, "label": label, "case": case, "detail": detail}, sort_keys=True, indent=1)
        h = hashlib.sha256(blob.encode()).hexdigest()[:12]
        path = os.path.join(REPLAY_DIR, "%s-%s.json" % (self.pid, h))
        with open(path, "w") as fh:
            fh.write(blob)
        self.violations.append({"label": label, "replay": path})
        if len(self.violations) <= 20:
            print("VIOLATION property=%s replay=%s" % (self.pid, path), flush=True)
            self.log("  %s: %s" % (label, detail))

    # ------------------------------------------------------------------------------------
    def finish(self):
        wall = time.time() - self.t0
        tot = {}
        for st in self.parts.values():
            for k, v in st.items():
                if isinstance(v, (int, float)) and not isinstance(v, bool):
                    tot[k] = tot.get(k, 0) + v
        if self.unsupported:
            self.inconclusive.append("source constructs the exporter does not support: %s" % self.unsupported[:3])
        states = int(tot.get("paths", 0) + tot.get("summary_paths", 0))
        coverage = {
            "states": max(states, 0),
            "transitions": int(tot.get("decisions", 0)),
            "traces_validated_against_impl": self.validated,
            "samples": self.samples[:12] if self.samples else ["(no sample recorded)"],
            "obligations": int(tot.get("obligations", 0)),
            "discharged": int(tot.get("discharged", 0)),
            "exhaustive": all(st.get("exhaustive", False) for st in self.parts.values()) and not self.inconclusive,
            "explanation": "states = symbolic paths of the real function bodies explored (each covers all scalar values); "
                           "transitions = branch decisions taken; obligations = solver queries 'path condition and not property', "
                           "discharged = answered unsat",
            "bounds": self.bounds,
            "solver": {"engine": "z3 " + z3.get_version_string(), "checks": int(tot.get("solver_checks", 0)),
                       "seconds": round(tot.get("solver_time", 0.0), 2), "sat": int(tot.get("sat", 0)),
                       "unknown": int(tot.get("unknown", 0))},
            "functions_encoded": sorted(self.functions),
            "source_sha256": self.hashes,
            "parts": self.parts,
            "stubs": STUBS,
            "known_findings_hit": self.known_hits,
            "encoder_mismatches": len(self.mismatches),
            "inconclusive": self.inconclusive,
        }
        ev = {
            "property_id": self.pid,
            "tier": self.tier,
            "seed": self.seed,
            "level": "model_checking",
            "coverage": coverage,
            "assumptions": self.assumptions,
            "wall_s": round(wall, 2),
            "violations": len(self.violations),
        }
        if not self.args.no_evidence:
            os.makedirs(EVIDENCE_DIR, exist_ok=True)
            with open(os.path.join(EVIDENCE_DIR, self.pid + ".json"), "w") as fh:
                json.dump(ev, fh, indent=1, sort_keys=True, default=str)
        if self.replay is not None:
            self.replay.close()
        if self.violations:
            self.log("FAIL: %d reproduced violation(s)" % len(self.violations))
            return 1
        if self.mismatches or self.inconclusive:
            self.log("INCONCLUSIVE: %s" % (self.inconclusive + ["%d encoder mismatches" % len(self.mismatches)]))
            return 2
        self.log("OK: %d obligations discharged over %d symbolic paths; %d traces validated against the compiled code; %.1fs"
                 % (coverage["discharged"], coverage["states"], self.validated, wall))
        return 0


def run_main(fn):
    """Run a check's main function on a big stack; map exceptions to exit code 2."""
    sys.setrecursionlimit(200000)
    threading.stack_size(1024 * 1024 * 1024)
    result = {}

    def target():
        try:
            result["rc"] = fn()
        except (InternalError, Inconclusive) as e:
            print("INCONCLUSIVE: %s" % (e,), flush=True)
            traceback.print_exc()
            result["rc"] = 2
        except Exception as e:
            print("INCONCLUSIVE (internal error): %r" % (e,), flush=True)
            traceback.print_exc()
            result["rc"] = 2
    t = threading.Thread(target=target)
    t.start()
    t.join()
    sys.stdout.flush()
    os._exit(result.get("rc", 2))
