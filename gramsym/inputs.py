"""Symbolic inputs: term templates whose constructor tags are z3 integers, refined lazily."""
import z3

from .values import Adt, Struct, TupleV, VecV, Big, CellV, some, none, InternalError

# constructor universe of term::Variant.  `Let<n>` are pseudo-constructors for groups of n
# definitions (a Vec of concrete length per alternative).
ARITY = {
    "Unifier": 0, "Type": 0, "Variable": 0, "Lambda": 2, "Pi": 2, "Application": 2,
    "Let0": 1, "Let1": 3, "Let2": 5, "Let3": 7, "Let4": 9,
    "Integer": 0, "IntegerLiteral": 0, "Negation": 1,
    "Sum": 2, "Difference": 2, "Product": 2, "Quotient": 2,
    "LessThan": 2, "LessThanOrEqualTo": 2, "EqualTo": 2, "GreaterThan": 2, "GreaterThanOrEqualTo": 2,
    "Boolean": 0, "True": 0, "False": 0, "If": 3,
}
CTORS = list(ARITY)
CODE = {c: i for i, c in enumerate(CTORS)}
BINARY = ["Sum", "Difference", "Product", "Quotient", "LessThan", "LessThanOrEqualTo", "EqualTo",
          "GreaterThan", "GreaterThanOrEqualTo"]
ARITH = ["Sum", "Difference", "Product", "Quotient"]
COMPARE = ["LessThan", "LessThanOrEqualTo", "EqualTo", "GreaterThan", "GreaterThanOrEqualTo"]
LEAVES = [c for c in CTORS if ARITY[c] == 0]
CONST_LEAVES = ["Type", "Integer", "Boolean", "True", "False"]
ALL_HOLE_FREE = [c for c in CTORS if c != "Unifier" and c != "Let0" and c != "Let4"]
LETS = ["Let0", "Let1", "Let2", "Let3", "Let4"]


def real_ctor(c):
    return "Let" if c.startswith("Let") else c


def let_n(c):
    return int(c[3:])


class InputTerm:
    """A `term::Term` whose variant is symbolic.  Persistent across paths; the set of constructors
    still possible on the current path lives in the explorer frame."""

    is_input_term = True

    def __init__(self, uid, depth, space, parent=None, slot=None):
        self.uid = uid
        self.depth = depth
        self.space = space          # InputSpace: decides alphabets and depth limits
        self.parent = parent
        self.slot = slot
        self.allowed0 = frozenset(space.alphabet(self))
        self.tag = z3.Int("tag!" + uid)
        self.idx = z3.Int("idx!" + uid)
        self.implicit = z3.Bool("imp!" + uid)
        self.lit = z3.Int("lit!" + uid)
        self.name = space.name_for(self)
        self._kids = {}
        self._adts = {}
        self.cell = None
        self.sr = space.source_range_for(self)

    def __repr__(self):
        return "<in %s>" % self.uid

    def kid(self, i):
        k = self._kids.get(i)
        if k is None:
            k = self.space.node_class("%s.%d" % (self.uid, i), self.depth + 1, self.space, self, i)
            self._kids[i] = k
        return k

    def tag_in(self, ctors):
        if len(ctors) == 1:
            (c,) = ctors
            return self.tag == CODE[c]
        return z3.Or(*[self.tag == CODE[c] for c in sorted(ctors)])

    def domain_constraints(self, ex=None):
        """Harness-level assumptions about this node's scalars (asserted when the node is first
        touched on a path)."""
        cs = [self.idx >= 0, self.tag_in(self.allowed0)]
        if self.space.scope is not None and ex is not None:
            cs.append(z3.Or(self.tag != CODE["Variable"], self.idx < self.space.scope + self.binders(ex)))
        return cs

    def binders(self, ex):
        """Number of binders between the root and this node on the current path (upper bound when
        an ancestor's constructor is not decided yet)."""
        n = 0
        node = self
        while node.parent is not None:
            p = node.parent
            best = 0
            for c in ex.allowed(p):
                if c in ("Lambda", "Pi"):
                    b = 1 if node.slot == 1 else 0
                elif c.startswith("Let"):
                    b = let_n(c) if node.slot <= 2 * let_n(c) else 0
                else:
                    b = 0
                best = max(best, b)
            n += best
            node = p
        return n

    def get_cell(self):
        if self.cell is None:
            self.cell = self.space.cell_for(self)
        return self.cell

    def decided_cost(self, c, ex):
        return ARITY[c]

    def on_decided(self, new, ex):
        # account for the children that now exist (all constructors in `new` have equal arity
        # when a budget is in force: decisions under a budget are per constructor)
        fr = ex.f
        key = ("counted", self.uid)
        if ex.node_budget is not None and key not in fr.locals and len(set(ARITY[c] for c in new)) == 1:
            fr.locals[key] = True
            fr.nodes_used += ARITY[next(iter(new))]
        hook = getattr(self.space, "on_decided", None)
        if hook is not None:
            hook(self, new, ex)

    def as_adt(self, c):
        """The variant value of this node under constructor c."""
        a = self._adts.get(c)
        if a is not None:
            return a
        E = "term::Variant"
        if c == "Unifier":
            a = Adt(E, "Unifier", [self.get_cell(), self.idx])
        elif c == "Variable":
            a = Adt(E, "Variable", [self.name, self.idx])
        elif c in ("Lambda", "Pi"):
            a = Adt(E, c, [self.name, self.implicit, self.kid(0), self.kid(1)])
        elif c == "IntegerLiteral":
            a = Adt(E, c, [Big(self.lit)])
        elif c.startswith("Let"):
            n = let_n(c)
            defs = VecV([TupleV([self.space.def_name(self, i), self.kid(2 * i), self.kid(2 * i + 1)])
                         for i in range(n)])
            a = Adt(E, "Let", [defs, self.kid(2 * n)])
        else:
            a = Adt(E, c, [self.kid(i) for i in range(ARITY[c])])
        self._adts[c] = a
        return a


class MappedTerm(InputTerm):
    """A second view of an input node (same solver variables, same per-path constructor decisions)
    whose *variable indices* are mapped: inside a region of the template, an index that points
    outside the region's binders is shifted, or two adjacent group indices are swapped.  Used to build
    rewritten programs (a definition inserted into, or two definitions exchanged in, an inner
    group).  Only meaningful on hole-free templates: a hole's shift is not an index."""

    def __init__(self, uid, depth, space, parent=None, slot=None):
        InputTerm.__init__(self, uid, depth, space, parent, slot)
        m = space.index_map(self)
        if m is not None:
            self.idx = m(self.idx)


def binder_contribution(p, slot):
    """Number of binders the parent p puts between itself and its child in `slot` (a formula over
    p's constructor tag)."""
    lam = 1 if slot == 1 else 0
    e = z3.IntVal(0)
    for c in ("Let4", "Let3", "Let2", "Let1"):
        e = z3.If(p.tag == CODE[c], let_n(c), e)
    return z3.If(z3.Or(p.tag == CODE["Lambda"], p.tag == CODE["Pi"]), lam, e)


class InputSpace:
    """Describes a family of symbolic terms: alphabets per position, depth limit, naming."""
    node_class = InputTerm

    def __init__(self, prefix, max_depth, alphabet, leaf_alphabet=None, source_ranges=True, shared_cells=None, scope=None):
        self.prefix = prefix
        # scope = n: every variable index is below n + (binders above it): well-scoped terms in a
        # context of n variables; None: indices unconstrained
        self.scope = scope
        self.max_depth = max_depth
        self._alphabet = alphabet
        self._leaf = leaf_alphabet
        self.source_ranges = source_ranges
        self.nodes = {}
        self.cells = {}

    def root(self, uid=None):
        uid = uid or self.prefix
        n = self.nodes.get(uid)
        if n is None:
            n = self.node_class(uid, 1, self)
            self.nodes[uid] = n
        return n

    def alphabet(self, node):
        a = self._alphabet(node) if callable(self._alphabet) else self._alphabet
        if node.depth >= self.max_depth:
            a = [c for c in a if ARITY[c] == 0]
        return a

    def name_for(self, node):
        return "x" + node.uid.replace(".", "_")

    def def_name(self, node, i):
        return "d%s_%d" % (node.uid.replace(".", "_"), i)

    def source_range_for(self, node):
        if not self.source_ranges:
            return none()
        u = node.uid
        return some(Struct("error::SourceRange", {"start": z3.Int("srs!" + u), "end": z3.Int("sre!" + u)}))

    def cell_for(self, node):
        c = self.cells.get(node.uid)
        if c is None:
            c = CellV("in:" + node.uid, content=none(), persistent=True)
            self.cells[node.uid] = c
        return c


def template_nodes(root, max_depth=None):
    """All nodes of a template that have been materialised so far."""
    out = []
    stack = [root]
    while stack:
        n = stack.pop()
        out.append(n)
        stack.extend(n._kids.values())
    return out
