"""Symbolic interpreter for the subset of Rust that gramlang/gram is written in.

It executes the *real* function bodies (JSON AST produced by tools/rs2json from /repo/src on every
run).  Control flow that depends on symbolic values goes through the Explorer (fork by
re-execution).  Library calls are modelled in `methods.py`/here; anything not modelled raises
InternalError, which makes the check inconclusive (never a pass, never an alarm).
"""
import re
import z3

from .values import (Adt, Struct, TupleV, VecV, Big, ISz, Char, CellV, Ref, Closure, PyFn, Str, Union,
                     Opaque, UNIT, InternalError, some, none, ok, err, is_sym, z_and, z_or, z_not, z_ite,
                     z_eq)
from .explorer import PathAbort, FuelExhausted
from .inputs import InputTerm, ARITY, LETS, real_ctor, let_n


class PanicEx(Exception):
    def __init__(self, msg, line=None, module=None, kind="panic"):
        Exception.__init__(self, msg)
        self.msg = msg
        self.line = line
        self.module = module
        self.kind = kind


class ReturnEx(Exception):
    def __init__(self, v):
        self.v = v


class BreakEx(Exception):
    def __init__(self, v=None):
        self.v = v


class ContinueEx(Exception):
    pass


class IVar:
    """The `variant` field of a symbolic input term."""
    __slots__ = ("node",)

    def __init__(self, node):
        self.node = node

    def __repr__(self):
        return "<variant of %s>" % self.node.uid


class FormatterV:
    """std::fmt::Formatter: collects the pieces written to it."""
    __slots__ = ("out",)

    def __init__(self, out):
        self.out = out


class MutBorrow:
    """`&mut tuple`: destructuring it binds scalars as slot references."""
    __slots__ = ("v",)

    def __init__(self, v):
        self.v = v


class CellRef:
    """RefMut / Ref guard returned by borrow_mut()/borrow()."""
    __slots__ = ("cell",)

    def __init__(self, cell):
        self.cell = cell


class IterV:
    """A Rust iterator: wraps a Python iterator."""
    __slots__ = ("it",)

    def __init__(self, it):
        self.it = iter(it)


class PeekV:
    __slots__ = ("it", "buf", "has")

    def __init__(self, it):
        self.it = iter(it)
        self.buf = None
        self.has = False


class SetV:
    """HashSet.  Elements may be symbolic; membership is decided by equality formulas.  `items` is a
    list of (guard, element): conditional members arise when a summary of a pure accumulator call is
    instantiated."""

    def __init__(self):
        self.items = []


class MapV:
    """HashMap as association list (keys may be symbolic)."""

    def __init__(self):
        self.items = []   # list of [key, value]


class RangeV:
    __slots__ = ("lo", "hi", "inclusive")

    def __init__(self, lo, hi, inclusive):
        self.lo, self.hi, self.inclusive = lo, hi, inclusive


class Env:
    __slots__ = ("vars", "parent")

    def __init__(self, parent=None):
        self.vars = {}
        self.parent = parent

    def lookup(self, name):
        e = self
        while e is not None:
            if name in e.vars:
                return e
            e = e.parent
        return None


_MISSING = object()


def parse_use_tree(s):
    """Parse the token string of a `use` tree into {imported_name: [full, path]}."""
    toks = s.replace("{", " { ").replace("}", " } ").replace(",", " , ").replace("::", " :: ").split()
    pos = [0]
    out = {}

    def tree(prefix):
        # tree := ident (:: tree)? | { tree, ... } | * | ident as ident
        t = toks[pos[0]]
        if t == "{":
            pos[0] += 1
            while toks[pos[0]] != "}":
                tree(prefix)
                if toks[pos[0]] == ",":
                    pos[0] += 1
            pos[0] += 1
            return
        pos[0] += 1
        if pos[0] < len(toks) and toks[pos[0]] == "::":
            pos[0] += 1
            tree(prefix + [t])
            return
        if pos[0] < len(toks) and toks[pos[0]] == "as":
            alias = toks[pos[0] + 1]
            pos[0] += 2
            out[alias] = prefix + [t]
            return
        if t == "self":
            out[prefix[-1]] = prefix
        elif t != "*":
            out[t] = prefix + [t]

    tree([])
    return out


class Module:
    def __init__(self, name):
        self.name = name
        self.fns = {}
        self.consts = {}
        self.enums = {}      # name -> {variant: nfields}
        self.structs = {}    # name -> [field names]
        self.aliases = {}
        self.imports = {}
        self.impls = []


class Interp:
    def __init__(self, ast, ex):
        self.ex = ex
        self.modules = {}
        self.fn_lines = {}
        for mname, m in ast.items():
            mod = Module(mname)
            self.modules[mname] = mod
            for it in m["items"]:
                k = it["k"]
                if k == "Fn":
                    mod.fns[it["name"]] = it
                elif k == "Const":
                    mod.consts[it["name"]] = it
                elif k == "Enum":
                    mod.enums[it["name"]] = {v["name"]: len(v["fields"]) for v in it["variants"]}
                elif k == "StructDef":
                    mod.structs[it["name"]] = [f["name"] for f in it["fields"]]
                elif k == "TypeAlias":
                    mod.aliases[it["name"]] = it["ty"]
                elif k == "Use":
                    mod.imports.update(parse_use_tree(it["tree"]))
                elif k == "Impl":
                    mod.impls.append(it)
        self.stubs = {}          # (module, fn) or fn -> python callable(interp, args)
        self.summarize_fns = set()
        self.summarize_acc = {}
        self.hash_order_nondet = False
        self.call_depth = 0
        self.fn_stack = []
        self.max_call_depth = 400
        self.const_cache = {}
        self.cur_line = None
        from . import methods
        self.methods = methods.METHODS
        self.builtin_calls = methods.BUILTIN_CALLS
        self.text = None         # text model (for tokenizer / listing), installed by harnesses
        self.call_counts = None  # name -> number of calls on this path, when a harness asks for it (C17)
        self.macro_hooks = {}    # name -> callable(interp, node, env, mod) for println!/eprintln! (process model of C14-M)

    # ------------------------------------------------------------------------------------
    # name resolution
    def resolve_path(self, mod, path):
        """Canonical path: list of segments with imports expanded."""
        first = path[0]
        if first == "crate":
            return path[1:]
        if first == "Self":
            return path
        imp = mod.imports.get(first)
        if imp is not None:
            full = list(imp) + list(path[1:])
            if full and full[0] == "crate":
                full = full[1:]
            return full
        if first in mod.enums or first in mod.structs or first in mod.fns or first in mod.consts or first in mod.aliases:
            return [mod.name] + list(path)
        return list(path)

    def find_variant(self, mod, path):
        """If path names an enum variant return (enum_qualified, variant, nfields) else None."""
        full = self.resolve_path(mod, path)
        if len(full) >= 3 and full[0] in self.modules:
            m = self.modules[full[0]]
            en = m.enums.get(full[1])
            if en is not None and full[2] in en:
                return (full[0] + "::" + full[1], full[2], en[full[2]])
        if len(full) == 1 or (len(full) == 2 and full[0] in ("Option", "Result")):
            v = full[-1]
            if v in ("Some", "None"):
                return ("Option", v, 1 if v == "Some" else 0)
            if v in ("Ok", "Err"):
                return ("Result", v, 1)
        return None

    def find_fn(self, mod, path):
        full = self.resolve_path(mod, path)
        if len(full) == 2 and full[0] in self.modules:
            f = self.modules[full[0]].fns.get(full[1])
            if f is not None:
                return (self.modules[full[0]], f)
        if len(full) == 1:
            f = mod.fns.get(full[0])
            if f is not None:
                return (mod, f)
        return None

    def find_const(self, mod, path):
        full = self.resolve_path(mod, path)
        if len(full) == 2 and full[0] in self.modules:
            c = self.modules[full[0]].consts.get(full[1])
            if c is not None:
                key = (full[0], full[1])
                if key not in self.const_cache:
                    self.const_cache[key] = self.eval(c["e"], Env(), self.modules[full[0]])
                return self.const_cache[key]
        return _MISSING

    def struct_name(self, mod, path):
        full = self.resolve_path(mod, path)
        if len(full) == 2 and full[0] in self.modules and full[1] in self.modules[full[0]].structs:
            return full[0] + "::" + full[1]
        return "::".join(full)

    # ------------------------------------------------------------------------------------
    def call(self, modname, fname, args):
        """Entry point for harnesses: call crate function `modname::fname`."""
        mod = self.modules[modname]
        return self.call_fn(mod, mod.fns[fname], list(args))

    def call_fn(self, mod, fn, args):
        ex = self.ex
        name = fn["name"]
        stub = self.stubs.get(name)
        if stub is not None:
            return stub(self, args)
        if name in self.summarize_fns:
            if name in self.summarize_acc:
                return self.summarize_accumulator(mod, fn, args, self.summarize_acc[name])
            return self.summarize(mod, fn, args)
        return self.call_fn_raw(mod, fn, args)

    def summarize_accumulator(self, mod, fn, args, pos):
        """A call that only adds to a set passed at position `pos` (term::free_variables): explore
        it once with an empty set, then add the conditional members to the caller's set."""
        ex = self.ex
        target = self.deref(args[pos])
        if not isinstance(target, SetV):
            raise InternalError("accumulator is not a set")
        rest = [a for i, a in enumerate(args) if i != pos]
        key = (mod.name, fn["name"], "acc") + tuple(self.vkey(a) for a in rest)
        ent = ex.summaries.get(key)
        if ent is None:
            members = []
            bad = []
            depth = self.call_depth
            fuel = ex.fuel_left

            def thunk(ex2):
                acc = SetV()
                a2 = list(args)
                a2[pos] = acc
                self.call_fn_raw(mod, fn, a2)
                return acc

            def on_end(ex2, outcome):
                fr = ex2.f
                pg = z_and(*fr.dguards)
                if outcome[0] == "ok":
                    for g, x in outcome[1].items:
                        members.append((z_and(pg, g), x))
                else:
                    bad.append((pg, outcome))
            before = ex.stats.aborted
            ex.stats.summaries += 1
            p0 = ex.stats.paths
            ex.explore(thunk, on_end)
            ex.stats.summary_paths += ex.stats.paths - p0
            ex.stats.paths = p0
            self.call_depth = depth
            ex.fuel_left = fuel
            if ex.stats.aborted - before or bad:
                raise InternalError("accumulator summary with aborted or failing paths")
            ent = (members, rest)
            ex.summaries[key] = ent
        target.items.extend(ent[0])
        return UNIT

    # ------------------------------------------------------------------------------------
    # summaries of pure calls: explore the call once under the harness-level assumptions, merge
    # the results of its paths into one guarded value, memoise on the argument identities
    def vkey(self, v):
        v = self.deref(v)
        if isinstance(v, (bool, int, str)):
            return v
        if is_sym(v):
            return ("z", v.get_id())
        if isinstance(v, InputTerm):
            return ("n", v.uid)
        if isinstance(v, (Big, ISz, Char)):
            return (type(v).__name__, self.vkey(v.v))
        return ("o", id(v))

    def summarize(self, mod, fn, args):
        from .merge import merge_tree
        ex = self.ex
        key = (mod.name, fn["name"]) + tuple(self.vkey(a) for a in args)
        ent = ex.summaries.get(key)
        if ent is None:
            results = []
            others = []
            depth = self.call_depth
            fuel = ex.fuel_left

            def thunk(ex2):
                return self.call_fn_raw(mod, fn, args)

            def on_end(ex2, outcome):
                fr = ex2.f
                if outcome[0] == "ok":
                    results.append((list(fr.trace), list(fr.dguards), outcome[1]))
                else:
                    others.append((z_and(*fr.dguards), outcome))
            before = ex.stats.aborted
            ex.stats.summaries += 1
            p0 = ex.stats.paths
            ex.explore(thunk, on_end)
            ex.stats.summary_paths += ex.stats.paths - p0
            ex.stats.paths = p0
            self.call_depth = depth
            ex.fuel_left = fuel
            aborted = ex.stats.aborted - before
            value = merge_tree(results) if results else None
            cover = None
            if aborted:
                cover = z_or(*([z_and(*g) for _, g, _ in results] + [g for g, _ in others]))
            ent = (value, others, cover, args)
            ex.summaries[key] = ent
        value, others, cover, _ = ent
        if cover is not None:
            ex.assume(cover)
        if others:
            guards = [g for g, _ in others]
            okg = z_not(z_or(*guards)) if value is not None else False
            i = ex.decide([okg] + guards)
            if i > 0:
                kind, payload = others[i - 1][1]
                if kind == "panic":
                    raise payload
                raise FuelExhausted()
        if value is None:
            raise PathAbort("summary without result")
        return value

    def call_fn_raw(self, mod, fn, args):
        ex = self.ex
        name = fn["name"]
        ex.functions_executed.add(mod.name + "::" + name)
        cc = self.call_counts
        if cc is not None:
            cc[name] = cc.get(name, 0) + 1
        ex.fuel_left -= 1
        if ex.fuel_left < 0:
            raise FuelExhausted()
        self.call_depth += 1
        if self.call_depth > self.max_call_depth:
            self.call_depth -= 1
            raise FuelExhausted()
        self.fn_stack.append(name)
        env = Env()
        params = fn["params"]
        if len(params) != len(args):
            raise InternalError("arity mismatch calling %s" % name)
        for p, a in zip(params, args):
            if not self.pmatch(p["pat"], a, env, mod):
                raise InternalError("irrefutable parameter pattern failed in %s" % name)
        try:
            try:
                return self.eval_block(fn["body"], env, mod)
            except ReturnEx as r:
                return r.v
        finally:
            self.call_depth -= 1
            self.fn_stack.pop()

    def call_value(self, f, args):
        """Call a first-class function value."""
        if isinstance(f, Closure):
            env = Env(f.env)
            if len(f.params) != len(args):
                raise InternalError("closure arity")
            for p, a in zip(f.params, args):
                if not self.pmatch(p, a, env, f.module):
                    raise InternalError("closure parameter pattern failed")
            try:
                return self.eval(f.body, env, f.module)
            except ReturnEx as r:
                return r.v
        if isinstance(f, PyFn):
            return f.fn(*args)
        raise InternalError("call of non-function %r" % (f,))

    # ------------------------------------------------------------------------------------
    # values helpers
    def deref(self, v):
        while True:
            if isinstance(v, Ref):
                v = v.get()
            elif isinstance(v, CellRef):
                v = self.ex.cell_get(v.cell)
            elif isinstance(v, MutBorrow):
                v = v.v
            else:
                return v

    def resolve(self, v):
        """Make the outermost constructor of v concrete (forks on unions)."""
        v = self.deref(v)
        while isinstance(v, Union):
            alts = v.alts
            if len(alts) == 1:
                self.ex.assume(alts[0][0])
                v = alts[0][1]
            else:
                i = self.ex.decide([g for g, _ in alts])
                v = alts[i][1]
            v = self.deref(v)
        return v

    def truth(self, v):
        v = self.deref(v)
        if isinstance(v, bool):
            return v
        if isinstance(v, Union):
            v = self.resolve(v)
            if isinstance(v, bool):
                return v
        return self.ex.branch(v)

    def clone(self, v):
        v = self.deref(v)
        if isinstance(v, VecV):
            return VecV([self.clone(x) for x in v])
        if isinstance(v, TupleV):
            return TupleV([self.clone(x) for x in v])
        if isinstance(v, SetV):
            s = SetV()
            s.items = list(v.items)
            return s
        if isinstance(v, MapV):
            m = MapV()
            m.items = [list(kv) for kv in v.items]
            return m
        return v

    def panic(self, msg, node=None, mod=None, kind="panic"):
        raise PanicEx(msg, node.get("l") if isinstance(node, dict) else None, mod.name if mod else None, kind)

    # ------------------------------------------------------------------------------------
    # structural equality (Rust `==` on data), as a formula
    def sym_eq(self, a, b):
        a = self.deref(a)
        b = self.deref(b)
        if a is b:
            return True
        if isinstance(a, Union) or isinstance(b, Union):
            if isinstance(a, Union):
                return z_or(*[z_and(g, self.sym_eq(v, b)) for g, v in a.alts])
            return z_or(*[z_and(g, self.sym_eq(a, v)) for g, v in b.alts])
        if isinstance(a, (bool, int)) or is_sym(a):
            if isinstance(b, (bool, int)) or is_sym(b):
                return z_eq(a, b)
            return False
        if isinstance(a, Big) and isinstance(b, Big):
            return z_eq(a.v, b.v)
        if isinstance(a, ISz) and isinstance(b, ISz):
            return z_eq(a.v, b.v)
        if isinstance(a, Char) and isinstance(b, Char):
            return z_eq(a.v, b.v)
        if isinstance(a, str) and isinstance(b, str):
            return a == b
        if hasattr(a, "sym_eq"):
            return a.sym_eq(self, b)
        if hasattr(b, "sym_eq"):
            return b.sym_eq(self, a)
        if isinstance(a, Str) or isinstance(b, Str) or isinstance(a, str) or isinstance(b, str):
            if self.text is not None:
                return self.text.str_eq(self, a, b)
            sa = a.s if isinstance(a, Str) else a
            sb = b.s if isinstance(b, Str) else b
            if isinstance(sa, str) and isinstance(sb, str):
                return sa == sb
            raise InternalError("comparison of opaque strings")
        if isinstance(a, Adt) and isinstance(b, Adt):
            if a.variant != b.variant or len(a.fields) != len(b.fields):
                return False
            return z_and(*[self.sym_eq(x, y) for x, y in zip(a.fields, b.fields)])
        if isinstance(a, (TupleV, VecV)) and isinstance(b, (TupleV, VecV)):
            if len(a) != len(b):
                return False
            return z_and(*[self.sym_eq(x, y) for x, y in zip(a, b)])
        if isinstance(a, Struct) and isinstance(b, Struct):
            if a.name != b.name:
                return False
            return z_and(*[self.sym_eq(a.fields[k], b.fields[k]) for k in a.fields])
        if isinstance(a, CellV) and isinstance(b, CellV):
            return a is b
        if hasattr(a, "sym_eq"):
            return a.sym_eq(self, b)
        if hasattr(b, "sym_eq"):
            return b.sym_eq(self, a)
        raise InternalError("== on %s and %s" % (type(a).__name__, type(b).__name__))

    # ------------------------------------------------------------------------------------
    # arithmetic
    def num_kind(self, a):
        if isinstance(a, Big):
            return "big"
        if isinstance(a, ISz):
            return "isz"
        return "usz"

    def arith(self, op, a, b, node, mod):
        a = self.deref(a)
        b = self.deref(b)
        if isinstance(a, Union):
            a = self.resolve(a)
        if isinstance(b, Union):
            b = self.resolve(b)
        ka, kb = self.num_kind(a), self.num_kind(b)
        kind = ka if ka != "usz" else kb
        av = a.v if ka != "usz" else a
        bv = b.v if kb != "usz" else b
        if isinstance(av, Char) or isinstance(bv, Char):
            raise InternalError("arithmetic on char")
        if op == "+":
            r = av + bv
        elif op == "-":
            if kind == "usz":
                if isinstance(av, int) and isinstance(bv, int):
                    if av < bv:
                        self.panic("attempt to subtract with overflow", node, mod, "underflow")
                else:
                    if not self.ex.branch(av >= bv):
                        self.panic("attempt to subtract with overflow", node, mod, "underflow")
            r = av - bv
        elif op == "*":
            r = av * bv
        elif op == "/":
            raise InternalError("machine division not modelled")
        else:
            raise InternalError("arith op " + op)
        if kind == "big":
            return Big(r)
        if kind == "isz":
            return ISz(r)
        return r

    def compare(self, op, a, b):
        a = self.deref(a)
        b = self.deref(b)
        if op == "==":
            return self.sym_eq(a, b)
        if op == "!=":
            return z_not(self.sym_eq(a, b))
        if isinstance(a, Union):
            a = self.resolve(a)
        if isinstance(b, Union):
            b = self.resolve(b)
        av = a.v if isinstance(a, (Big, ISz, Char)) else a
        bv = b.v if isinstance(b, (Big, ISz, Char)) else b
        if hasattr(av, "cmp_key"):
            av = av.cmp_key()
        if hasattr(bv, "cmp_key"):
            bv = bv.cmp_key()
        if not (isinstance(av, int) or is_sym(av)) or not (isinstance(bv, int) or is_sym(bv)):
            raise InternalError("ordering comparison on %r, %r" % (type(a).__name__, type(b).__name__))
        if op == "<":
            return av < bv
        if op == "<=":
            return av <= bv
        if op == ">":
            return av > bv
        if op == ">=":
            return av >= bv
        raise InternalError("compare op " + op)

    # ------------------------------------------------------------------------------------
    # blocks and statements
    def eval_block(self, blk, env, mod):
        env = Env(env)
        deferred = None
        result = UNIT
        try:
            stmts = blk["stmts"]
            n = len(stmts)
            for i, st in enumerate(stmts):
                k = st["k"]
                if k == "Let":
                    if st["init"] is None:
                        self.bind_uninit(st["pat"], env)
                        continue
                    if st["pat"].get("k") == "PType" and "Hash" in (st["pat"].get("ty") or ""):
                        self.collect_hint = st["pat"]["ty"]
                        try:
                            v = self.eval(st["init"], env, mod)
                        finally:
                            self.collect_hint = None
                    else:
                        v = self.eval(st["init"], env, mod)
                    if not self.pmatch(st["pat"], v, env, mod):
                        if st["else"] is not None:
                            self.eval(st["else"], env, mod)
                            raise InternalError("let-else fell through")
                        raise InternalError("refutable let pattern failed at line %s" % st.get("l"))
                elif k == "ExprStmt":
                    e = st["e"]
                    if e["k"] == "Defer":
                        if deferred is None:
                            deferred = []
                        deferred.append((e["body"], env))
                        continue
                    last = (i == n - 1) and not st["semi"]
                    v = self.eval(e, env, mod, discard=not last)
                    if last:
                        result = v
                elif k == "ItemStmt":
                    pass
                else:
                    raise InternalError("statement kind " + k)
            return result
        finally:
            if deferred:
                for body, denv in reversed(deferred):
                    self.eval_block(body, denv, mod)

    def bind_uninit(self, pat, env):
        if pat["k"] == "PIdent":
            env.vars[pat["name"]] = None
        elif pat["k"] == "PType":
            self.bind_uninit(pat["pat"], env)
        else:
            raise InternalError("uninitialised let with pattern")

    # ------------------------------------------------------------------------------------
    # patterns
    def pat_ctor_name(self, pat, mod):
        """If pat is a constructor pattern return (variant_name, subpatterns) else None."""
        k = pat["k"]
        if k == "PTupleStruct":
            return (pat["path"][-1], pat["elems"], pat["path"])
        if k == "PPath":
            return (pat["path"][-1], [], pat["path"])
        if k == "PIdent" and pat["sub"] is None and pat["name"][0].isupper():
            return (pat["name"], [], [pat["name"]])
        return None

    def pmatch(self, pat, v, env, mod):
        k = pat["k"]
        if k == "PIdent":
            name = pat["name"]
            if name[0].isupper() and pat["sub"] is None:
                # unit variant or constant
                c = self.find_const(mod, [name])
                if c is not _MISSING:
                    return self.truth(self.sym_eq(v, c))
                return self.match_ctor(name, [], [name], v, env, mod)
            if pat["sub"] is not None:
                if not self.pmatch(pat["sub"], v, env, mod):
                    return False
            if isinstance(v, MutBorrow):
                v = v.v
            env.vars[name] = v
            return True
        if k == "PWild":
            return True
        if k == "PTupleStruct":
            return self.match_ctor(pat["path"][-1], pat["elems"], pat["path"], v, env, mod)
        if k == "PPath":
            c = self.find_const(mod, pat["path"])
            if c is not _MISSING:
                return self.truth(self.sym_eq(v, c))
            return self.match_ctor(pat["path"][-1], [], pat["path"], v, env, mod)
        if k == "PTuple":
            mb = isinstance(v, MutBorrow)
            t = self.resolve(v)
            if not isinstance(t, (TupleV, tuple)):
                raise InternalError("tuple pattern against %s" % type(t).__name__)
            elems = pat["elems"]
            if len(elems) != len(t):
                raise InternalError("tuple pattern arity")
            for i, (p, x) in enumerate(zip(elems, t)):
                if mb:
                    if isinstance(x, TupleV):
                        x = MutBorrow(x)
                    elif not isinstance(x, (VecV, MapV, SetV, CellV, MutBorrow)):
                        if p["k"] == "PIdent" and not p["name"][0].isupper():
                            env.vars[p["name"]] = Ref(t, i)
                            continue
                if not self.pmatch(p, x, env, mod):
                    return False
            return True
        if k == "POr":
            return self.match_or(pat, v, env, mod)
        if k == "PRef":
            return self.pmatch(pat["pat"], v, env, mod)
        if k == "PType":
            return self.pmatch(pat["pat"], v, env, mod)
        if k == "PLit":
            lv = self.lit_value(pat["lit"])
            return self.truth(self.sym_eq(v, lv))
        if k == "PRange":
            lo = self.eval(pat["lo"], env, mod) if pat["lo"] is not None else None
            hi = self.eval(pat["hi"], env, mod) if pat["hi"] is not None else None
            c = True
            if lo is not None:
                c = z_and(c, self.compare(">=", v, lo))
            if hi is not None:
                c = z_and(c, self.compare("<=" if pat["inclusive"] else "<", v, hi))
            return self.truth(c)
        if k == "PStruct":
            s = self.resolve(v)
            if isinstance(s, InputTerm):
                raise InternalError("struct pattern on input term")
            if not isinstance(s, Struct):
                raise InternalError("struct pattern against %s" % type(s).__name__)
            for f in pat["fields"]:
                if not self.pmatch(f["pat"], s.fields[f["name"]], env, mod):
                    return False
            return True
        raise InternalError("pattern kind " + k)

    def match_or(self, pat, v, env, mod):
        cases = pat["cases"]
        dv = self.deref(v)
        if isinstance(dv, IVar):
            # group constructor alternatives that bind the same generic slots
            names = []
            shape = None
            ok_group = True
            for c in cases:
                cn = self.pat_ctor_name(c, mod)
                if cn is None or cn[0] == "Let":
                    ok_group = False
                    break
                sub = cn[1]
                sh = []
                for p in sub:
                    if p["k"] == "PWild":
                        sh.append(None)
                    elif p["k"] == "PIdent" and p["sub"] is None and not p["name"][0].isupper():
                        sh.append(p["name"])
                    else:
                        ok_group = False
                        break
                if not ok_group:
                    break
                binds = tuple(sh)
                has_bind = any(x is not None for x in binds)
                if shape is None:
                    shape = (binds, has_bind)
                elif has_bind or shape[1]:
                    if binds != shape[0]:
                        ok_group = False
                        break
                names.append(cn[0])
            if ok_group and names:
                node = dv.node
                if shape[1]:
                    ar = set(ARITY[n] for n in names)
                    if len(ar) != 1 or any(n in ("Variable", "Unifier", "IntegerLiteral", "Lambda", "Pi") for n in names):
                        ok_group = False
                if ok_group:
                    if not self.ex.decide_ctor(node, frozenset(names)):
                        return False
                    if shape[1]:
                        for i, b in enumerate(shape[0]):
                            if b is not None:
                                env.vars[b] = node.kid(i)
                    return True
        if isinstance(dv, Union) and all(isinstance(x, Adt) for _, x in dv.alts):
            grp = self.or_group(cases, mod)
            if grp is not None:
                names, binds = grp
                nameset = set(names)
                sel = self.union_select(dv, lambda x: x.variant in nameset)
                if sel is None:
                    return False
                if any(b is not None for b in binds):
                    from .merge import merge
                    alts = sel.alts if isinstance(sel, Union) else [(True, sel)]
                    for i, b in enumerate(binds):
                        if b is not None:
                            env.vars[b] = merge([(g, x.fields[i]) for g, x in alts])
                return True
        for c in cases:
            sub = Env(env)
            if self.pmatch(c, v, sub, mod):
                env.vars.update(sub.vars)
                return True
        return False

    def or_group(self, cases, mod):
        """If every case is `Ctor(binders/wildcards)` with the same binders, return (names, binders)."""
        names = []
        shape = None
        for c in cases:
            cn = self.pat_ctor_name(c, mod)
            if cn is None or cn[0] == "Let":
                return None
            sh = []
            for p in cn[1]:
                if p["k"] == "PWild":
                    sh.append(None)
                elif p["k"] == "PIdent" and p["sub"] is None and not p["name"][0].isupper():
                    sh.append(p["name"])
                else:
                    return None
            binds = tuple(sh)
            has = any(x is not None for x in binds)
            if shape is None:
                shape = binds
            elif has or any(x is not None for x in shape):
                if binds != shape:
                    return None
            names.append(cn[0])
        if not names:
            return None
        return names, (shape if any(x is not None for x in shape) else ())

    def union_select(self, u, pred):
        """Restrict a union of Adt alternatives to those satisfying `pred` (a two-way decision).
        Returns the merged selected value, or None if the path continues with the others."""
        from .merge import merge
        fr = self.ex.f
        ekey = ("excl", id(u))
        excl = fr.locals.get(ekey)
        if excl is None:
            excl = set()
            fr.locals[ekey] = excl
            fr.locals[("pin", id(u))] = u
        yes = []
        no = []
        for i, (g, x) in enumerate(u.alts):
            if i in excl:
                continue
            (yes if pred(x) else no).append((i, g, x))
        if not yes:
            return None
        gy = z_or(*[g for _, g, _ in yes])
        if no:
            gn = z_or(*[g for _, g, _ in no])
            took = self.ex.decide([gy, gn]) == 0
        else:
            # nothing else is left: the remaining alternatives are the selected ones
            took = True
        if took:
            for i, _, _ in no:
                excl.add(i)
            if len(yes) == 1:
                return yes[0][2]
            return merge([(g, x) for _, g, x in yes])
        for i, _, _ in yes:
            excl.add(i)
        return None

    def match_ctor(self, cname, subpats, path, v, env, mod):
        dv = self.deref(v)
        if isinstance(dv, Union):
            if all(isinstance(x, Adt) for _, x in dv.alts):
                sel = self.union_select(dv, lambda x: x.variant == cname)
                if sel is None:
                    return False
                if isinstance(sel, Union):
                    sel = self.resolve(sel)
                return self.match_fields(sel, subpats, env, mod)
            dv = self.resolve(dv)
        if isinstance(dv, IVar):
            node = dv.node
            if cname == "Let":
                cur = self.ex.allowed(node)
                for ln in LETS:
                    if ln in cur:
                        if self.ex.decide_ctor(node, frozenset([ln])):
                            return self.match_fields(node.as_adt(ln), subpats, env, mod)
                return False
            if cname not in ARITY:
                return False
            if not self.ex.decide_ctor(node, frozenset([cname])):
                return False
            return self.match_fields(node.as_adt(cname), subpats, env, mod)
        if isinstance(dv, Adt):
            if dv.variant != cname:
                return False
            return self.match_fields(dv, subpats, env, mod)
        if isinstance(dv, Struct) and dv.name.split("::")[-1] == cname:
            # tuple struct pattern
            for i, p in enumerate(subpats):
                if not self.pmatch(p, dv.fields[str(i)], env, mod):
                    return False
            return True
        if hasattr(dv, "match_ctor"):
            return dv.match_ctor(self, cname, subpats, env, mod)
        raise InternalError("constructor pattern %s against %s (%r)" % (cname, type(dv).__name__, dv))

    def match_fields(self, adt, subpats, env, mod):
        if len(subpats) != len(adt.fields):
            if len(subpats) == 0:
                return True
            raise InternalError("pattern arity for %s" % adt.variant)
        for p, x in zip(subpats, adt.fields):
            if not self.pmatch(p, x, env, mod):
                return False
        return True

    # ------------------------------------------------------------------------------------
    def lit_value(self, l):
        k = l["k"]
        if k == "Int":
            return int(l["v"])
        if k == "Bool":
            return l["v"]
        if k == "Str":
            return l["v"]
        if k == "Char":
            return Char(l["v"])
        raise InternalError("literal " + k)

    # ------------------------------------------------------------------------------------
    # expressions
    def eval(self, e, env, mod, discard=False):
        ex = self.ex
        ex.eval_left -= 1
        if ex.eval_left < 0:
            raise FuelExhausted()
        k = e["k"]
        m = getattr(self, "e_" + k, None)
        if m is None:
            raise InternalError("expression kind %s at %s:%s" % (k, mod.name, e.get("l")))
        if k == "MethodCall":
            return m(e, env, mod, discard)
        return m(e, env, mod)

    def e_Lit(self, e, env, mod):
        return self.lit_value(e["lit"])

    def e_Path(self, e, env, mod):
        path = e["path"]
        if len(path) == 1:
            name = path[0]
            sc = env.lookup(name)
            if sc is not None:
                v = sc.vars[name]
                if isinstance(v, Ref):
                    return v.get()
                return v
        c = self.find_const(mod, path)
        if c is not _MISSING:
            return c
        var = self.find_variant(mod, path)
        if var is not None:
            enum, vname, nf = var
            if nf == 0:
                return Adt(enum, vname)
            return PyFn(lambda *a: Adt(enum, vname, a), vname)
        fn = self.find_fn(mod, path)
        if fn is not None:
            fmod, f = fn
            return PyFn(lambda *a: self.call_fn(fmod, f, list(a)), f["name"])
        key = "::".join(path)
        b = self.builtin_calls.get(key)
        if b is not None:
            return PyFn(lambda *a: b(self, list(a), e, mod), key)
        if key == "SHOULD_COLORIZE":
            return Opaque("SHOULD_COLORIZE")
        raise InternalError("unresolved path %s at %s:%s" % (key, mod.name, e.get("l")))

    def raw_lookup(self, name, env):
        sc = env.lookup(name)
        if sc is None:
            raise InternalError("unbound variable " + name)
        return sc, sc.vars[name]

    def e_Block(self, e, env, mod):
        return self.eval_block(e, env, mod)

    def e_MacroExpansion(self, e, env, mod):
        return self.eval(e["e"], env, mod)

    def e_Tuple(self, e, env, mod):
        return TupleV([self.eval(x, env, mod) for x in e["elems"]])

    def e_Ref(self, e, env, mod):
        v = self.eval(e["e"], env, mod)
        if isinstance(v, CellRef):
            v = self.ex.cell_get(v.cell)
        if e["mut"] and isinstance(v, TupleV):
            return MutBorrow(v)
        return v

    def e_Unary(self, e, env, mod):
        op = e["op"]
        if op == "*":
            inner = e["e"]
            if inner["k"] == "Path" and len(inner["path"]) == 1:
                sc = env.lookup(inner["path"][0])
                if sc is not None:
                    v = sc.vars[inner["path"][0]]
                    return self.deref(v)
            v = self.eval(inner, env, mod)
            return self.deref(v)
        v = self.eval(e["e"], env, mod)
        v = self.deref(v)
        if op == "!":
            if isinstance(v, bool):
                return not v
            if isinstance(v, Union):
                v = self.resolve(v)
                if isinstance(v, bool):
                    return not v
            return z_not(v)
        if op == "-":
            if isinstance(v, Union):
                v = self.resolve(v)
            if isinstance(v, Big):
                return Big(-v.v)
            if isinstance(v, ISz):
                return ISz(-v.v)
            raise InternalError("negation of unsigned")
        raise InternalError("unary " + op)

    def e_Binary(self, e, env, mod):
        op = e["op"]
        if op == "&&":
            return self.eval_cond(e, env, mod)
        if op == "||":
            l = self.eval(e["lhs"], env, mod)
            if self.truth(l):
                return True
            r = self.eval(e["rhs"], env, mod)
            return self.deref(r)
        if op in ("+=", "-=", "*="):
            cur = self.eval(e["lhs"], env, mod)
            r = self.eval(e["rhs"], env, mod)
            nv = self.arith(op[0], cur, r, e, mod)
            self.assign(e["lhs"], nv, env, mod)
            return UNIT
        l = self.eval(e["lhs"], env, mod)
        r = self.eval(e["rhs"], env, mod)
        if op in ("+", "-", "*", "/"):
            return self.arith(op, l, r, e, mod)
        if op in ("==", "!=", "<", "<=", ">", ">="):
            return self.compare(op, l, r)
        raise InternalError("binary " + op)

    def eval_cond(self, e, env, mod):
        """Condition (possibly an `&&` chain with `let` patterns); binds into env."""
        k = e["k"]
        if k == "Binary" and e["op"] == "&&":
            if not self.eval_cond(e["lhs"], env, mod):
                return False
            return self.eval_cond(e["rhs"], env, mod)
        if k == "LetCond":
            v = self.eval(e["e"], env, mod)
            return self.pmatch(e["pat"], v, env, mod)
        return self.truth(self.eval(e, env, mod))

    def e_LetCond(self, e, env, mod):
        return self.eval_cond(e, env, mod)

    def e_If(self, e, env, mod):
        cenv = Env(env)
        if self.eval_cond(e["cond"], cenv, mod):
            return self.eval_block(e["then"], cenv, mod)
        if e["else"] is not None:
            return self.eval(e["else"], env, mod)
        return UNIT

    def e_Match(self, e, env, mod):
        v = self.eval(e["e"], env, mod)
        for arm in e["arms"]:
            aenv = Env(env)
            if self.pmatch(arm["pat"], v, aenv, mod):
                if arm["guard"] is not None:
                    if not self.eval_cond(arm["guard"], aenv, mod):
                        continue
                return self.eval(arm["body"], aenv, mod)
        raise InternalError("non-exhaustive match at %s:%s on %r" % (mod.name, e.get("l"), v))

    def e_Return(self, e, env, mod):
        v = self.eval(e["e"], env, mod) if e["e"] is not None else UNIT
        raise ReturnEx(v)

    def e_Break(self, e, env, mod):
        raise BreakEx(self.eval(e["e"], env, mod) if e["e"] is not None else UNIT)

    def e_Continue(self, e, env, mod):
        raise ContinueEx()

    def loop_tick(self):
        ex = self.ex
        ex.fuel_left -= 1
        if ex.fuel_left < 0:
            raise FuelExhausted()

    def e_Loop(self, e, env, mod):
        while True:
            self.loop_tick()
            try:
                self.eval_block(e["body"], env, mod)
            except BreakEx as b:
                return b.v
            except ContinueEx:
                continue

    def e_While(self, e, env, mod):
        while True:
            self.loop_tick()
            cenv = Env(env)
            if not self.eval_cond(e["cond"], cenv, mod):
                return UNIT
            try:
                self.eval_block(e["body"], cenv, mod)
            except BreakEx:
                return UNIT
            except ContinueEx:
                continue

    def iterate(self, v):
        """Python iterator over a Rust iterable value."""
        v = self.deref(v)
        if isinstance(v, IterV):
            return v.it
        if isinstance(v, PeekV):
            return self.peek_iter(v)
        if isinstance(v, (VecV, list)):
            return iter(list(v))
        if isinstance(v, RangeV):
            return self.range_iter(v)
        if isinstance(v, SetV):
            return iter(self.set_iteration_order(v))
        if isinstance(v, MapV):
            return iter(self.map_iteration_order(v))
        if isinstance(v, Union):
            return self.iterate(self.resolve(v))
        raise InternalError("iteration over %s" % type(v).__name__)

    def map_iteration_order(self, m):
        """(key, value) pairs of a HashMap; with hash_order_nondet the order is an explored choice."""
        items = [TupleV([k, v]) for k, v in m.items]
        if self.hash_order_nondet and len(items) > 1:
            out = []
            rest = list(items)
            while len(rest) > 1:
                i = self.ex.choose(len(rest))
                out.append(rest.pop(i))
            out.extend(rest)
            self.ex.event("hash_iteration", n=len(items))
            return out
        return items

    def peek_iter(self, p):
        while True:
            if p.has:
                p.has = False
                x = p.buf
                p.buf = None
                yield x
            else:
                try:
                    yield next(p.it)
                except StopIteration:
                    return

    def range_iter(self, r):
        lo, hi = r.lo, r.hi
        if isinstance(lo, int) and isinstance(hi, int):
            return iter(range(lo, hi + 1 if r.inclusive else hi))
        return self.sym_range_iter(lo, hi, r.inclusive)

    def sym_range_iter(self, lo, hi, inclusive):
        i = lo
        while True:
            self.loop_tick()
            c = (i <= hi) if inclusive else (i < hi)
            if not self.ex.branch(c):
                return
            yield i
            i = i + 1

    def set_iteration_order(self, s):
        items = self.set_distinct(s)
        if self.hash_order_nondet and len(items) > 1:
            # the iteration order of a RandomState hash container is an explored choice
            out = []
            rest = list(items)
            while len(rest) > 1:
                i = self.ex.choose(len(rest))
                out.append(rest.pop(i))
            out.extend(rest)
            self.ex.event("hash_iteration", n=len(items))
            return out
        return items

    def set_distinct(self, s):
        out = []
        for g, x in s.items:
            if not self.truth(g):
                continue
            dup = False
            for y in out:
                if self.truth(self.sym_eq(x, y)):
                    dup = True
                    break
            if not dup:
                out.append(x)
        s.items = [(True, x) for x in out]
        return list(out)

    def e_For(self, e, env, mod):
        it = self.iterate(self.eval(e["iter"], env, mod))
        for x in it:
            self.loop_tick()
            benv = Env(env)
            if not self.pmatch(e["pat"], x, benv, mod):
                raise InternalError("for pattern failed")
            try:
                self.eval_block(e["body"], benv, mod)
            except BreakEx:
                break
            except ContinueEx:
                continue
        return UNIT

    def e_Range(self, e, env, mod):
        lo = self.deref(self.eval(e["lo"], env, mod)) if e["lo"] is not None else None
        hi = self.deref(self.eval(e["hi"], env, mod)) if e["hi"] is not None else None
        return RangeV(lo, hi, e["inclusive"])

    def e_Closure(self, e, env, mod):
        return Closure(e["params"], e["body"], env, self, mod)

    def e_Struct(self, e, env, mod):
        name = self.struct_name(mod, e["path"])
        fields = {}
        for f in e["fields"]:
            fields[f["name"]] = self.eval(f["e"], env, mod)
        if e["rest"] is not None:
            base = self.resolve(self.eval(e["rest"], env, mod))
            for k2, v2 in base.fields.items():
                fields.setdefault(k2, v2)
        return Struct(name, fields)

    def e_Field(self, e, env, mod):
        v = self.eval(e["e"], env, mod)
        return self.get_field(v, e["name"], e, mod)

    def get_field(self, v, name, e=None, mod=None):
        v = self.deref(v)
        if isinstance(v, Union):
            v = self.resolve(v)
        if isinstance(v, InputTerm):
            if name == "variant":
                return IVar(v)
            if name == "source_range":
                return v.sr
            raise InternalError("field %s of input term" % name)
        if isinstance(v, Struct):
            try:
                return v.fields[name]
            except KeyError:
                raise InternalError("no field %s in %s" % (name, v.name))
        if isinstance(v, (TupleV, tuple)):
            return v[int(name)]
        if hasattr(v, "get_field"):
            return v.get_field(self, name)
        raise InternalError("field %s of %s at %s:%s" % (name, type(v).__name__, mod.name if mod else "?", e.get("l") if e else "?"))

    def e_Index(self, e, env, mod):
        base = self.deref(self.eval(e["e"], env, mod))
        idx = self.deref(self.eval(e["idx"], env, mod))
        if isinstance(base, Union):
            base = self.resolve(base)
        if isinstance(idx, RangeV):
            if self.text is not None:
                return self.text.slice(self, base, idx, e, mod)
            raise InternalError("slicing without a text model")
        if hasattr(base, "index"):
            if not isinstance(base, (VecV, TupleV, list)):
                return base.index(self, idx, e, mod)
        if isinstance(base, (VecV, list)):
            i = self.concretize_index(idx, len(base), e, mod)
            return base[i]
        raise InternalError("index into %s" % type(base).__name__)

    def concretize_index(self, idx, n, e, mod):
        if isinstance(idx, int):
            if idx < 0 or idx >= n:
                self.panic("index out of bounds: the len is %d but the index is %d" % (n, idx), e, mod, "index")
            return idx
        guards = [idx == i for i in range(n)]
        guards.append(z3.Or(idx >= n, idx < 0))
        i = self.ex.decide(guards)
        if i == n:
            self.panic("index out of bounds: the len is %d" % n, e, mod, "index")
        return i

    def e_Assign(self, e, env, mod):
        v = self.eval(e["rhs"], env, mod)
        self.assign(e["lhs"], v, env, mod)
        return UNIT

    def assign(self, lhs, v, env, mod):
        k = lhs["k"]
        if k == "Path" and len(lhs["path"]) == 1:
            sc, cur = self.raw_lookup(lhs["path"][0], env)
            sc.vars[lhs["path"][0]] = v
            return
        if k == "Unary" and lhs["op"] == "*":
            inner = lhs["e"]
            if inner["k"] == "Path" and len(inner["path"]) == 1:
                sc, cur = self.raw_lookup(inner["path"][0], env)
                if isinstance(cur, Ref):
                    cur.set(v)
                    return
                if isinstance(cur, CellRef):
                    self.ex.cell_set(cur.cell, v)
                    return
                sc.vars[inner["path"][0]] = v
                return
            target = self.eval(inner, env, mod)
            if isinstance(target, CellRef):
                self.ex.cell_set(target.cell, v)
                return
            if isinstance(target, Ref):
                target.set(v)
                return
            raise InternalError("assignment through %s" % type(target).__name__)
        if k == "Index":
            base = self.deref(self.eval(lhs["e"], env, mod))
            idx = self.deref(self.eval(lhs["idx"], env, mod))
            i = self.concretize_index(idx, len(base), lhs, mod)
            base[i] = v
            return
        if k == "Field":
            base = self.deref(self.eval(lhs["e"], env, mod))
            if isinstance(base, Struct):
                base.fields[lhs["name"]] = v
                return
            if isinstance(base, TupleV):
                base[int(lhs["name"])] = v
                return
        raise InternalError("assignment to " + k)

    def e_Try(self, e, env, mod):
        v = self.resolve(self.eval(e["e"], env, mod))
        if isinstance(v, Adt):
            if v.variant in ("Some", "Ok"):
                return v.fields[0]
            if v.variant in ("None", "Err"):
                raise ReturnEx(v)
        raise InternalError("? on %r" % (v,))

    def e_Cast(self, e, env, mod):
        v = self.eval(e["e"], env, mod)
        return v

    def e_Array(self, e, env, mod):
        return VecV([self.eval(x, env, mod) for x in e["elems"]])

    def e_Defer(self, e, env, mod):
        raise InternalError("defer! in expression position")

    def e_Unsupported(self, e, env, mod):
        raise InternalError("unsupported construct: %s" % e.get("what"))

    def e_MacroCall(self, e, env, mod):
        name = e["name"]
        if name == "vec":
            return VecV([self.eval(x, env, mod) for x in e["args"]])
        if name == "format":
            args = [self.eval(x, env, mod) for x in e["args"]]
            r = self.format(args)
            fmt = args[0] if args else None
            if isinstance(fmt, str) and r.s is None:
                # inline captures: {name}, {name:>width$}
                caps = {}
                for m in re.finditer(r"\{([A-Za-z_][A-Za-z0-9_]*)(?::[^}]*?([A-Za-z_][A-Za-z0-9_]*)\$)?[^}]*\}", fmt):
                    for nm in m.groups():
                        if nm and nm not in caps:
                            sc = env.lookup(nm)
                            if sc is not None:
                                caps[nm] = self.deref(sc.vars[nm])
                            else:
                                c = self.find_const(mod, [nm])
                                if c is not _MISSING:
                                    caps[nm] = c
                if caps:
                    r.captures = caps
            return r
        if name == "write":
            # write!(f, "fmt", args..): append the rendered pieces to the formatter value
            f = self.deref(self.eval(e["args"][0], env, mod))
            if not isinstance(f, FormatterV):
                raise InternalError("write! to %s" % type(f).__name__)
            fmt = self.eval(e["args"][1], env, mod)
            args = [self.eval(x, env, mod) for x in e["args"][2:]]
            self.render_format(fmt, args, lambda nm: self.lookup_capture(nm, env, mod), f.out)
            return Adt("Result", "Ok", [UNIT])
        if name == "panic":
            args = [self.eval(x, env, mod) for x in e["args"]]
            fmt = args[0] if args else ""
            self.panic("panic!: %s" % (fmt,), e, mod, "explicit")
        if name == "assert_eq":
            a = self.eval(e["args"][0], env, mod)
            b = self.eval(e["args"][1], env, mod)
            if not self.truth(self.sym_eq(a, b)):
                self.panic("assertion `left == right` failed", e, mod, "assert")
            return UNIT
        if name == "assert":
            a = self.eval(e["args"][0], env, mod)
            if not self.truth(a):
                self.panic("assertion failed", e, mod, "assert")
            return UNIT
        h = self.macro_hooks.get(name)
        if h is not None:
            return h(self, e, env, mod)
        raise InternalError("macro %s!" % name)

    def lookup_capture(self, nm, env, mod):
        sc = env.lookup(nm)
        if sc is not None:
            return self.deref(sc.vars[nm])
        c = self.find_const(mod, [nm])
        if c is not _MISSING:
            return c
        raise InternalError("format capture %s not found" % nm)

    def render_format(self, fmt, args, capture, out):
        """Append the pieces of a format string: text (str) and displayed values."""
        if not isinstance(fmt, str):
            raise InternalError("non-literal format string")
        i = 0
        n = len(fmt)
        nxt = 0
        buf = ""
        while i < n:
            c = fmt[i]
            if c == "{":
                if i + 1 < n and fmt[i + 1] == "{":
                    buf += "{"
                    i += 2
                    continue
                j = fmt.index("}", i)
                hole = fmt[i + 1:j]
                if ":" in hole:
                    hole = hole.split(":")[0]
                if buf:
                    out.append(buf)
                    buf = ""
                if hole == "":
                    v = args[nxt]
                    nxt += 1
                elif hole.isdigit():
                    v = args[int(hole)]
                else:
                    v = capture(hole)
                self.display_value(v, out)
                i = j + 1
                continue
            if c == "}":
                if i + 1 < n and fmt[i + 1] == "}":
                    buf += "}"
                    i += 2
                    continue
                raise InternalError("stray } in format string")
            buf += c
            i += 1
        if buf:
            out.append(buf)

    def display_value(self, v, out):
        """Display::fmt of a value, appended to out: str pieces, ('name', obj), ('int', Big|sym)."""
        v = self.resolve(v)
        if isinstance(v, str):
            out.append(v)
            return
        if isinstance(v, Str):
            if v.s is not None:
                out.append(v.s)
                return
            parts = v.parts
            if parts and parts[0] == "display":
                return self.display_value(parts[1], out)
            if parts and isinstance(parts[0], str) and parts[0] not in ("throw", "join", "repeat"):
                caps = v.captures or {}

                def cap(nm):
                    if nm in caps:
                        return caps[nm]
                    raise InternalError("format capture %s not recorded" % nm)
                return self.render_format(parts[0], list(parts[1:]), cap, out)
            raise InternalError("display of string %r" % (v,))
        if isinstance(v, (Big,)):
            out.append(("int", v))
            return
        if isinstance(v, int) and not isinstance(v, bool):
            out.append(str(v))
            return
        if isinstance(v, InputTerm):
            v2 = Struct("term::Term", {"source_range": v.sr, "variant": IVar(v)})
            return self.display_impl("Term", v2, out)
        if isinstance(v, Struct):
            return self.display_impl(v.name.split("::")[-1], v, out)
        if isinstance(v, (Adt, IVar)):
            tname = v.enum.split("::")[-1] if isinstance(v, Adt) else "Variant"
            return self.display_impl(tname, v, out)
        if hasattr(v, "sym_eq") or hasattr(v, "concrete"):
            out.append(("name", v))
            return
        raise InternalError("display of %s" % type(v).__name__)

    def display_impl(self, tname, v, out):
        for m in self.modules.values():
            for im in m.impls:
                if im.get("trait", "").split("::")[-1] == "Display" and im["self_ty"].split("<")[0].strip() == tname:
                    for fn in im["fns"]:
                        if fn["name"] == "fmt":
                            f = FormatterV(out)
                            r = self.call_fn_raw(m, fn, [v, f])
                            return r
        raise InternalError("no Display impl for %s" % tname)

    def format(self, args):
        fmt = args[0]
        if isinstance(fmt, str) and len(args) == 1 and "{" not in fmt:
            return Str(fmt)
        return Str(None, tuple(args))

    def e_Call(self, e, env, mod):
        f = e["f"]
        args = [self.eval(a, env, mod) for a in e["args"]]
        if f["k"] == "Path":
            path = f["path"]
            if len(path) == 1:
                sc = env.lookup(path[0])
                if sc is not None:
                    return self.call_value(self.deref(sc.vars[path[0]]), args)
            fn = self.find_fn(mod, path)
            if fn is not None:
                return self.call_fn(fn[0], fn[1], args)
            var = self.find_variant(mod, path)
            if var is not None:
                return Adt(var[0], var[1], args)
            key = "::".join(path)
            b = self.builtin_calls.get(key)
            if b is not None:
                return b(self, args, e, mod)
            full = self.resolve_path(mod, path)
            if len(full) == 2 and full[0] in self.modules and full[1] in self.modules[full[0]].structs:
                return Struct(full[0] + "::" + full[1], {str(i): a for i, a in enumerate(args)})
            raise InternalError("unresolved call %s at %s:%s" % (key, mod.name, e.get("l")))
        fv = self.eval(f, env, mod)
        return self.call_value(self.deref(fv), args)

    def e_MethodCall(self, e, env, mod, discard=False):
        recv = self.eval(e["recv"], env, mod)
        name = e["method"]
        args = [self.eval(a, env, mod) for a in e["args"]]
        h = self.methods.get(name)
        if h is None:
            raise InternalError("method %s at %s:%s" % (name, mod.name, e.get("l")))
        return h(self, recv, args, e, mod, discard)
