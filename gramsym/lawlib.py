"""Helpers shared by the law-style harnesses (symbolic and native evaluation of the same laws)."""
import z3

from .values import Union, z_and, z_or, z_not, z_eq, InternalError
from .explorer import Explorer, Frame
from . import terms as T


def implies(a, b):
    if a is True:
        return b
    if a is False:
        return True
    if b is True:
        return True
    if isinstance(b, bool):
        b = z3.BoolVal(b)
    return z3.Implies(a, b)


def iff(a, b):
    if isinstance(a, bool) and isinstance(b, bool):
        return a == b
    if isinstance(a, bool):
        a = z3.BoolVal(a)
    if isinstance(b, bool):
        b = z3.BoolVal(b)
    return a == b


def split_option(v):
    """Option value (possibly a union) -> (is_some formula, payload or None)."""
    from .merge import merge
    alts = v.alts if isinstance(v, Union) else [(True, v)]
    somes = [(g, x.fields[0]) for g, x in alts if x.variant in ("Some", "Ok")]
    is_some = z_or(*[g for g, _ in somes])
    if not somes:
        return False, None
    return is_some, merge(somes)


class NativeFailure(Exception):
    pass


class JTerm:
    """A concrete term: JSON plus the executor's value for it (so that references and term_eq work)."""

    def __init__(self, j, cells=None):
        self.json = j
        self.cells = cells or {}
        self.value = T.from_json(j, self.cells)


def val(t):
    return t.value if isinstance(t, JTerm) else t


def concrete_truth(f):
    if isinstance(f, bool):
        return f
    r = z3.simplify(f)
    if z3.is_true(r):
        return True
    if z3.is_false(r):
        return False
    raise InternalError("formula is not concrete: %s" % r)


class ConcreteCtx(Explorer):
    """An explorer with a single, already running path: for evaluating references on concrete values."""

    def __init__(self):
        Explorer.__init__(self)
        self.frames.append(Frame(self._new_solver()))
        self.fuel_left = 10 ** 7
        self.eval_left = 10 ** 9
        self.eq_cache = {}


def empty_model():
    s = z3.Solver()
    s.check()
    return s.model()


def check_term_eq(ex, check, label, premise, a, b, opts):
    """Decide `premise => a == b` position by position (conjunction of small obligations)."""
    from .values import z_and
    for ctx, f, where in T.slot_eq(ex, val(a), val(b), opts):
        g = z_and(premise, ctx)
        if g is False or f is True:
            continue
        check(label, implies(g, f))
