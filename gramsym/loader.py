"""Load the real source of /repo as an AST, on every run."""
import hashlib
import json
import os
import subprocess

VERIF = os.path.dirname(os.path.dirname(os.path.abspath(__file__)))
REPO = os.environ.get("GRAM_REPO", "/repo")
RS2JSON_DIR = os.path.join(VERIF, "tools", "rs2json")
RS2JSON = os.path.join(RS2JSON_DIR, "target", "release", "rs2json")

SOURCE_FILES = ["de_bruijn", "equality", "error", "evaluator", "format", "normalizer", "parser", "term", "token",
                "tokenizer", "type_checker", "unifier"]


def cargo_env():
    env = dict(os.environ)
    env["CARGO_NET_OFFLINE"] = "true"
    return env


def ensure_rs2json():
    if not os.path.exists(RS2JSON):
        subprocess.run(["cargo", "build", "--release", "--offline"], cwd=RS2JSON_DIR, env=cargo_env(), check=True,
                       stdout=subprocess.DEVNULL, stderr=subprocess.DEVNULL)


def load_ast(files=None):
    """Returns (ast, hashes).  The AST is regenerated from /repo/src on every call."""
    ensure_rs2json()
    files = files or SOURCE_FILES
    paths = [os.path.join(REPO, "src", f + ".rs") for f in files]
    out = subprocess.run([RS2JSON] + paths, check=True, stdout=subprocess.PIPE).stdout
    ast = json.loads(out)
    hashes = {}
    for p in paths:
        with open(p, "rb") as fh:
            hashes[os.path.relpath(p, REPO)] = hashlib.sha256(fh.read()).hexdigest()
    return ast, hashes


def find_unsupported(ast):
    acc = []

    def walk(v, where):
        if isinstance(v, dict):
            if v.get("k") == "Unsupported":
                acc.append((where, v))
            for x in v.values():
                walk(x, where)
        elif isinstance(v, list):
            for x in v:
                walk(x, where)
    for m, v in ast.items():
        walk(v, m)
    return acc
