"""Merging the results of the paths of a pure call into one guarded value (DESIGN.md 2.2).

`merge(alts)` takes mutually exclusive (guard, value) alternatives and returns one value:
same-constructor alternatives are merged field-wise (scalars with ite), different constructors stay
separate alternatives of a Union.  `merge_tree` merges along the decision tree of the explored
paths, so that guards stay local conditions instead of whole path conditions.
"""
import z3

from .values import (Adt, Struct, TupleV, VecV, Big, ISz, Char, CellV, Str, Union, UNIT, InternalError,
                     is_sym, z_and, z_or, z_not, z_ite)
from .inputs import InputTerm, CODE, CTORS

TERM = "term::Term"


def expand_input(node, allowed=None):
    """An input term as an explicit Struct whose variant is a union over its constructors."""
    cur = allowed if allowed is not None else node.allowed0
    alts = [(node.tag == CODE[c], node.as_adt(c)) for c in sorted(cur, key=CTORS.index)]
    var = alts[0][1] if len(alts) == 1 else Union(alts)
    return Struct(TERM, {"source_range": node.sr, "variant": var})


def flatten(alts):
    out = []
    for g, v in alts:
        if g is False:
            continue
        if isinstance(v, Union):
            for g2, v2 in flatten(v.alts):
                gg = z_and(g, g2)
                if gg is not False:
                    out.append((gg, v2))
        else:
            out.append((g, v))
    return out


def shape_key(v):
    from .interp import IVar
    if isinstance(v, bool):
        return ("bool",)
    if isinstance(v, int):
        return ("int",)
    if is_sym(v):
        return ("bool",) if z3.is_bool(v) else ("int",)
    if isinstance(v, Big):
        return ("Big",)
    if isinstance(v, ISz):
        return ("ISz",)
    if isinstance(v, Char):
        return ("Char",)
    if isinstance(v, Adt):
        lens = tuple(len(f) for f in v.fields if isinstance(f, (VecV, TupleV)))
        return ("Adt", v.enum, v.variant, len(v.fields), lens)
    if isinstance(v, Struct):
        return ("Struct", v.name)
    if isinstance(v, InputTerm):
        return ("Struct", TERM)
    if isinstance(v, IVar):
        return ("IVar", v.node.uid)
    if isinstance(v, VecV):
        return ("Vec", len(v))
    if isinstance(v, TupleV):
        return ("Tuple", len(v))
    if isinstance(v, str):
        return ("str", v)
    return ("obj", id(v))


def ite_chain(alts):
    # alternatives are exclusive and cover the region of interest: the last one is the default
    r = alts[-1][1]
    for g, v in reversed(alts[:-1]):
        r = z_ite(g, v, r)
    return r


def merge(alts):
    from .interp import IVar
    alts = flatten(alts)
    if not alts:
        raise InternalError("merge of nothing")
    if len(alts) == 1:
        return alts[0][1]
    first = alts[0][1]
    if all(v is first for _, v in alts):
        return first
    groups = {}
    order = []
    for g, v in alts:
        k = shape_key(v)
        if k not in groups:
            groups[k] = []
            order.append(k)
        groups[k].append((g, v))
    out = []
    for k in order:
        grp = groups[k]
        gg = z_or(*[g for g, _ in grp])
        out.append((gg, merge_same(k, grp)))
    if len(out) == 1:
        return out[0][1]
    # an IVar next to explicit variants: expand it
    if any(isinstance(v, IVar) for _, v in out):
        exp = []
        for g, v in out:
            if isinstance(v, IVar):
                exp.append((g, expand_input(v.node).fields["variant"]))
            else:
                exp.append((g, v))
        return merge(exp)
    return Union(out)


def merge_same(k, grp):
    if len(grp) == 1:
        return grp[0][1]
    first = grp[0][1]
    if all(v is first for _, v in grp):
        return first
    kind = k[0]
    if kind in ("bool", "int"):
        return ite_chain(grp)
    if kind == "Big":
        return Big(ite_chain([(g, v.v) for g, v in grp]))
    if kind == "ISz":
        return ISz(ite_chain([(g, v.v) for g, v in grp]))
    if kind == "Char":
        return Char(ite_chain([(g, v.v) for g, v in grp]))
    if kind == "Adt":
        n = k[3]
        fields = [merge([(g, v.fields[i]) for g, v in grp]) for i in range(n)]
        return Adt(first.enum, first.variant, fields)
    if kind == "Struct":
        vals = []
        for g, v in grp:
            if isinstance(v, InputTerm):
                v = expand_input(v)
            vals.append((g, v))
        names = list(vals[0][1].fields)
        return Struct(vals[0][1].name, {f: merge([(g, v.fields[f]) for g, v in vals]) for f in names})
    if kind == "Vec":
        return VecV([merge([(g, v[i]) for g, v in grp]) for i in range(k[1])])
    if kind == "Tuple":
        return TupleV([merge([(g, v[i]) for g, v in grp]) for i in range(k[1])])
    if kind in ("str", "IVar"):
        return first
    return first


class _Trie:
    __slots__ = ("kids", "guards", "leaf")

    def __init__(self):
        self.kids = {}
        self.guards = {}
        self.leaf = None


def merge_tree(results):
    """results: [(trace, guards, value)] with trace a list of decision indices and guards the
    formulas asserted at each decision.  Returns the merged value."""
    root = _Trie()
    for trace, guards, value in results:
        n = root
        for i, g in zip(trace, guards):
            if i not in n.kids:
                n.kids[i] = _Trie()
                n.guards[i] = g
            n = n.kids[i]
        n.leaf = (value,)

    missing = object()

    def rec(n):
        if not n.kids:
            if n.leaf is None:
                return missing
            return n.leaf[0]
        alts = []
        for i in sorted(n.kids):
            r = rec(n.kids[i])
            if r is not missing:
                alts.append((n.guards[i], r))
        if not alts:
            return missing
        return merge(alts)

    r = rec(root)
    if r is missing:
        raise InternalError("merge_tree: no results")
    return r


def tree_guards(results):
    """For outcomes that are not merged (panics): the full guard of each path."""
    return [(z_and(*guards), value) for _, guards, value in results]
