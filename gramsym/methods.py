"""Library models: the methods and associated functions of std / num-bigint / scopeguard that
gram's code calls.  Every entry here is part of the trusted base of each check (DESIGN.md 2.3) and is
validated against the compiled code by the concrete differential run of every check."""
import itertools
import z3

from .values import (Adt, Struct, TupleV, VecV, Big, ISz, Char, CellV, Ref, Closure, PyFn, Str, Union,
                     Opaque, UNIT, InternalError, some, none, ok, err, is_sym, z_and, z_or, z_not, z_ite,
                     z_eq)


def _I():
    from . import interp
    return interp


METHODS = {}
BUILTIN_CALLS = {}


def method(*names):
    def deco(f):
        for n in names:
            METHODS[n] = f
        return f
    return deco


def builtin(*names):
    def deco(f):
        for n in names:
            BUILTIN_CALLS[n] = f
        return f
    return deco


def opt(it, v):
    v = it.resolve(v)
    if isinstance(v, Adt) and v.enum in ("Option", "Result"):
        return v
    raise InternalError("expected Option/Result, got %r" % (v,))


# ---------------------------------------------------------------------------------------------
@method("clone")
def m_clone(it, recv, args, e, mod, discard):
    return it.clone(recv)


@method("to_owned")
def m_to_owned(it, recv, args, e, mod, discard):
    return it.deref(recv)


@method("borrow", "borrow_mut")
def m_borrow(it, recv, args, e, mod, discard):
    I = _I()
    c = it.resolve(recv)
    if not isinstance(c, CellV):
        raise InternalError("borrow on %s" % type(c).__name__)
    return I.CellRef(c)


@method("as_ref", "as_deref")
def m_as_ref(it, recv, args, e, mod, discard):
    return it.deref(recv)


@method("unwrap")
def m_unwrap(it, recv, args, e, mod, discard):
    v = opt(it, recv)
    if v.variant in ("Some", "Ok"):
        return v.fields[0]
    it.panic("called `unwrap()` on a `%s` value" % v.variant, e, mod, "unwrap")


@method("unwrap_or")
def m_unwrap_or(it, recv, args, e, mod, discard):
    v = opt(it, recv)
    if v.variant in ("Some", "Ok"):
        return v.fields[0]
    return args[0]


@method("is_some")
def m_is_some(it, recv, args, e, mod, discard):
    r = it.deref(recv)
    if isinstance(r, Union):
        return z_or(*[g for g, v in r.alts if isinstance(v, Adt) and v.variant == "Some"])
    return opt(it, recv).variant == "Some"


@method("is_none")
def m_is_none(it, recv, args, e, mod, discard):
    return opt(it, recv).variant == "None"


@method("map")
def m_map(it, recv, args, e, mod, discard):
    I = _I()
    r = it.deref(recv)
    if isinstance(r, (I.IterV, I.PeekV, VecV, I.RangeV)):
        f = args[0]
        src = it.iterate(r)
        return I.IterV(it.call_value(f, [x]) for x in src)
    v = opt(it, r)
    if v.variant == "Some":
        return some(it.call_value(args[0], [v.fields[0]]))
    if v.variant == "Ok":
        return ok(it.call_value(args[0], [v.fields[0]]))
    return v


@method("map_err")
def m_map_err(it, recv, args, e, mod, discard):
    v = opt(it, recv)
    if v.variant == "Err":
        return err(it.call_value(it.deref(args[0]), [v.fields[0]]))
    return v


@method("unwrap_or_else")
def m_unwrap_or_else(it, recv, args, e, mod, discard):
    v = opt(it, recv)
    if v.variant in ("Some", "Ok"):
        return v.fields[0]
    f = it.deref(args[0])
    return it.call_value(f, [v.fields[0]] if v.variant == "Err" else [])


@method("ok")
def m_ok(it, recv, args, e, mod, discard):
    v = opt(it, recv)
    if v.variant == "Ok":
        return some(v.fields[0])
    if v.variant == "Err":
        return none()
    raise InternalError("ok() on %s" % v.variant)


@method("err")
def m_err(it, recv, args, e, mod, discard):
    v = opt(it, recv)
    if v.variant == "Err":
        return some(v.fields[0])
    if v.variant == "Ok":
        return none()
    raise InternalError("err() on %s" % v.variant)


@method("and_then")
def m_and_then(it, recv, args, e, mod, discard):
    v = opt(it, recv)
    if v.variant in ("Some", "Ok"):
        return it.call_value(it.deref(args[0]), [v.fields[0]])
    return v


@method("ok_or")
def m_ok_or(it, recv, args, e, mod, discard):
    v = opt(it, recv)
    if v.variant == "Some":
        return ok(v.fields[0])
    return err(args[0])


@method("is_ok")
def m_is_ok(it, recv, args, e, mod, discard):
    return opt(it, recv).variant == "Ok"


@method("is_err")
def m_is_err(it, recv, args, e, mod, discard):
    return opt(it, recv).variant == "Err"


@method("next_back")
def m_next_back(it, recv, args, e, mod, discard):
    items = list(it.iterate(it.deref(recv)))
    return some(items[-1]) if items else none()


@method("trim")
def m_trim(it, recv, args, e, mod, discard):
    r = it.deref(recv)
    if isinstance(r, Str) and r.s is not None:
        return Str(r.s.strip())
    if isinstance(r, str):
        return r.strip()
    raise InternalError("trim of a non-concrete string")


@method("filter_map")
def m_filter_map(it, recv, args, e, mod, discard):
    I = _I()
    f = it.deref(args[0])
    src = it.iterate(it.deref(recv))

    def gen():
        for x in src:
            r = opt(it, it.call_value(f, [x]))
            if r.variant == "Some":
                yield r.fields[0]
    return I.IterV(gen())


@method("filter")
def m_filter(it, recv, args, e, mod, discard):
    I = _I()
    f = it.deref(args[0])
    src = it.iterate(it.deref(recv))
    return I.IterV(x for x in src if it.truth(it.call_value(f, [x])))


@method("map_or")
def m_map_or(it, recv, args, e, mod, discard):
    v = opt(it, recv)
    if v.variant == "Some":
        return it.call_value(args[1], [v.fields[0]])
    return args[0]


@method("map_or_else")
def m_map_or_else(it, recv, args, e, mod, discard):
    v = opt(it, recv)
    if v.variant == "Some":
        return it.call_value(args[1], [v.fields[0]])
    return it.call_value(args[0], [])


# ---------------------------------------------------------------------------------------------
# collections
@method("len")
def m_len(it, recv, args, e, mod, discard):
    I = _I()
    r = it.resolve(recv)
    if isinstance(r, (VecV, list)):
        return len(r)
    if isinstance(r, I.MapV):
        return len(r.items)
    if hasattr(r, "rs_len"):
        return r.rs_len(it)
    if it.text is not None:
        return it.text.str_len(it, r)
    raise InternalError("len of %s" % type(r).__name__)


@method("is_empty")
def m_is_empty(it, recv, args, e, mod, discard):
    I = _I()
    r = it.resolve(recv)
    if isinstance(r, (VecV, list)):
        return len(r) == 0
    if hasattr(r, "rs_is_empty"):
        return r.rs_is_empty(it)
    if isinstance(r, Str) and r.s is not None:
        return len(r.s) == 0
    if it.text is not None:
        return it.text.str_is_empty(it, r)
    raise InternalError("is_empty of %s" % type(r).__name__)


@method("push")
def m_push(it, recv, args, e, mod, discard):
    r = it.resolve(recv)
    if hasattr(r, "rs_push"):
        return r.rs_push(it, args[0])
    if not isinstance(r, VecV):
        raise InternalError("push on %s" % type(r).__name__)
    r.append(args[0])
    return UNIT


@method("append")
def m_append(it, recv, args, e, mod, discard):
    """Vec::append(&mut other): moves all elements of other to the end of self."""
    r = it.resolve(recv)
    o = it.resolve(args[0])
    if not isinstance(r, VecV) or not isinstance(o, VecV):
        raise InternalError("append on %s" % type(r).__name__)
    r.extend(o)
    del o[:]
    return UNIT


@method("pop")
def m_pop(it, recv, args, e, mod, discard):
    r = it.resolve(recv)
    if not isinstance(r, VecV):
        raise InternalError("pop on %s" % type(r).__name__)
    if r:
        return some(r.pop())
    return none()


@method("first")
def m_first(it, recv, args, e, mod, discard):
    r = it.resolve(recv)
    return some(r[0]) if len(r) else none()


@method("last")
def m_last(it, recv, args, e, mod, discard):
    r = it.resolve(recv)
    return some(r[-1]) if len(r) else none()


@method("iter", "into_iter")
def m_iter(it, recv, args, e, mod, discard):
    I = _I()
    r = it.resolve(recv)
    if isinstance(r, (I.IterV, I.PeekV)):
        return r
    return I.IterV(it.iterate(r))


@method("iter_mut")
def m_iter_mut(it, recv, args, e, mod, discard):
    I = _I()
    r = it.resolve(recv)
    if not isinstance(r, VecV):
        raise InternalError("iter_mut on %s" % type(r).__name__)

    def gen():
        for i in range(len(r)):
            x = r[i]
            if isinstance(x, TupleV):
                yield I.MutBorrow(x)
            else:
                yield Ref(r, i)
    return I.IterV(gen())


@method("enumerate")
def m_enumerate(it, recv, args, e, mod, discard):
    I = _I()
    src = it.iterate(recv)
    return I.IterV(TupleV([i, x]) for i, x in enumerate(src))


@method("skip")
def m_skip(it, recv, args, e, mod, discard):
    I = _I()
    n = it.deref(args[0])
    if not isinstance(n, int):
        raise InternalError("skip by symbolic amount")
    return I.IterV(itertools.islice(it.iterate(recv), n, None))


@method("zip")
def m_zip(it, recv, args, e, mod, discard):
    I = _I()
    return I.IterV(TupleV([a, b]) for a, b in zip(it.iterate(recv), it.iterate(args[0])))


@method("chain")
def m_chain(it, recv, args, e, mod, discard):
    I = _I()
    return I.IterV(itertools.chain(it.iterate(recv), it.iterate(args[0])))


@method("any")
def m_any(it, recv, args, e, mod, discard):
    for x in it.iterate(recv):
        if it.truth(it.call_value(args[0], [x])):
            return True
    return False


@method("all")
def m_all(it, recv, args, e, mod, discard):
    for x in it.iterate(recv):
        if not it.truth(it.call_value(args[0], [x])):
            return False
    return True


@method("fold")
def m_fold(it, recv, args, e, mod, discard):
    acc = args[0]
    for x in it.iterate(recv):
        acc = it.call_value(args[1], [acc, x])
    return acc


@method("collect")
def m_collect(it, recv, args, e, mod, discard):
    I = _I()
    items = list(it.iterate(recv))
    hint = e.get("turbofish") or ""
    if getattr(it, "collect_hint", None):
        hint = hint + " " + it.collect_hint
    if "HashSet" in hint:
        st = I.SetV()
        for x in items:
            x = it.deref(x)
            if not it.truth(set_contains(it, st, x)):
                st.items.append((True, x))
        return st
    if "HashMap" in hint:
        m = I.MapV()
        for kv in items:
            kv = it.resolve(kv)
            map_insert(it, m, kv[0], kv[1])
        return m
    return VecV(items)


@method("peekable")
def m_peekable(it, recv, args, e, mod, discard):
    I = _I()
    r = it.deref(recv)
    if hasattr(r, "rs_peekable"):
        return r.rs_peekable(it)
    return I.PeekV(it.iterate(r))


@method("next")
def m_next(it, recv, args, e, mod, discard):
    I = _I()
    r = it.deref(recv)
    if hasattr(r, "rs_next"):
        return r.rs_next(it)
    if isinstance(r, I.PeekV):
        if r.has:
            r.has = False
            x = r.buf
            r.buf = None
            return x
        try:
            return some(next(r.it))
        except StopIteration:
            return none()
    if isinstance(r, I.IterV):
        try:
            return some(next(r.it))
        except StopIteration:
            return none()
    raise InternalError("next on %s" % type(r).__name__)


@method("next_if")
def m_next_if(it, recv, args, e, mod, discard):
    """Peekable::next_if: consume and return the next item iff the predicate holds for it."""
    pk = it.resolve(m_peek(it, recv, [], e, mod, False))
    if pk.variant != "Some":
        return none()
    if it.truth(it.call_value(it.deref(args[0]), [pk.fields[0]])):
        return m_next(it, recv, [], e, mod, False)
    return none()


@method("peek")
def m_peek(it, recv, args, e, mod, discard):
    I = _I()
    r = it.deref(recv)
    if hasattr(r, "rs_peek"):
        return r.rs_peek(it)
    if not isinstance(r, I.PeekV):
        raise InternalError("peek on %s" % type(r).__name__)
    if not r.has:
        try:
            r.buf = some(next(r.it))
        except StopIteration:
            r.buf = none()
        r.has = True
    return r.buf


@method("sort_unstable", "sort")
def m_sort(it, recv, args, e, mod, discard):
    r = it.resolve(recv)
    if not isinstance(r, VecV):
        raise InternalError("sort on %s" % type(r).__name__)
    # insertion sort; comparisons on symbolic elements fork
    out = []
    for x in r:
        i = len(out)
        while i > 0 and it.truth(it.compare("<", x, out[i - 1])):
            i -= 1
        out.insert(i, x)
    r[:] = out
    return UNIT


@method("join")
def m_join(it, recv, args, e, mod, discard):
    r = it.resolve(recv)
    return Str(None, ("join", tuple(r), args[0]))


# ---------------------------------------------------------------------------------------------
# hash containers
def set_contains(it, s, x):
    return z_or(*[z_and(g, it.sym_eq(x, y)) for g, y in s.items])


def map_find(it, m, k):
    """Index of the entry with key k (forks on symbolic key equality); None if absent."""
    for i, (kk, _) in enumerate(m.items):
        if it.truth(it.sym_eq(k, kk)):
            return i
    return None


def map_insert(it, m, k, v):
    i = map_find(it, m, k)
    if i is None:
        m.items.append([k, v])
        return none()
    old = m.items[i][1]
    m.items[i][1] = v
    return some(old)


@method("insert")
def m_insert(it, recv, args, e, mod, discard):
    I = _I()
    r = it.resolve(recv)
    if isinstance(r, I.SetV):
        x = it.deref(args[0])
        if discard:
            r.items.append((True, x))
            return UNIT
        present = it.truth(set_contains(it, r, x))
        if not present:
            r.items.append((True, x))
        return not present
    if isinstance(r, I.MapV):
        return map_insert(it, r, it.deref(args[0]), args[1])
    raise InternalError("insert on %s" % type(r).__name__)


@method("contains")
def m_contains(it, recv, args, e, mod, discard):
    I = _I()
    r = it.resolve(recv)
    if isinstance(r, I.SetV):
        return set_contains(it, r, it.deref(args[0]))
    raise InternalError("contains on %s" % type(r).__name__)


@method("contains_key")
def m_contains_key(it, recv, args, e, mod, discard):
    I = _I()
    r = it.resolve(recv)
    if isinstance(r, I.MapV):
        return map_find(it, r, it.deref(args[0])) is not None
    raise InternalError("contains_key on %s" % type(r).__name__)


@method("get")
def m_get(it, recv, args, e, mod, discard):
    I = _I()
    r = it.resolve(recv)
    if isinstance(r, I.MapV):
        i = map_find(it, r, it.deref(args[0]))
        return none() if i is None else some(r.items[i][1])
    if isinstance(r, list):
        i = it.deref(args[0])
        if not isinstance(i, int):
            if not is_sym(i):
                raise InternalError("slice::get with index %r" % (i,))
            n = len(r)
            k = it.ex.decide([i == j for j in range(n)] + [z3.Or(i >= n, i < 0)])
            i = k if k < n else n
        return some(r[i]) if 0 <= i < len(r) else none()
    raise InternalError("get on %s" % type(r).__name__)


class EntryV:
    """HashMap::entry(key)"""
    __slots__ = ("map", "key")

    def __init__(self, m, k):
        self.map = m
        self.key = k


@method("entry")
def m_entry(it, recv, args, e, mod, discard):
    I = _I()
    r = it.resolve(recv)
    if not isinstance(r, I.MapV):
        raise InternalError("entry on %s" % type(r).__name__)
    return EntryV(r, it.deref(args[0]))


@method("or_insert")
def m_or_insert(it, recv, args, e, mod, discard):
    r = it.deref(recv)
    if not isinstance(r, EntryV):
        raise InternalError("or_insert on %s" % type(r).__name__)
    i = map_find(it, r.map, r.key)
    if i is None:
        r.map.items.append([r.key, args[0]])
        i = len(r.map.items) - 1
    return r.map.items[i][1]


@method("remove")
def m_remove(it, recv, args, e, mod, discard):
    I = _I()
    r = it.resolve(recv)
    if isinstance(r, I.MapV):
        i = map_find(it, r, it.deref(args[0]))
        if i is None:
            return none()
        return some(r.items.pop(i)[1])
    if isinstance(r, I.SetV):
        # HashSet::remove: true iff the element was present
        x = it.deref(args[0])
        for i, (g, y) in enumerate(r.items):
            if g is not True:
                raise InternalError("remove from a set with conditional members")
            if it.truth(it.sym_eq(x, y)):
                r.items.pop(i)
                return True
        return False
    raise InternalError("remove on %s" % type(r).__name__)


# ---------------------------------------------------------------------------------------------
# BigInt
def trunc_div(a, b):
    if isinstance(a, int) and isinstance(b, int):
        q = abs(a) // abs(b)
        return q if (a >= 0) == (b > 0) else -q
    za = a if is_sym(a) else z3.IntVal(a)
    zb = b if is_sym(b) else z3.IntVal(b)
    return z3.If(zb > 0,
                 z3.If(za >= 0, za / zb, -((-za) / zb)),
                 z3.If(za >= 0, -(za / (-zb)), (-za) / (-zb)))


@method("checked_div")
def m_checked_div(it, recv, args, e, mod, discard):
    a = it.resolve(recv)
    b = it.resolve(args[0])
    if not isinstance(a, Big) or not isinstance(b, Big):
        raise InternalError("checked_div on non-BigInt")
    if it.truth(z_eq(b.v, 0)):
        return none()
    return some(Big(trunc_div(a.v, b.v)))


# ---------------------------------------------------------------------------------------------
# strings (opaque unless a text model is installed)
@method("to_string")
def m_to_string(it, recv, args, e, mod, discard):
    r = it.deref(recv)
    if isinstance(r, str):
        return r
    if isinstance(r, int) and not isinstance(r, bool):
        return Str(str(r))
    if is_sym(r) and it.text is not None:
        return it.text.int_to_string(it, r)
    return Str(None, ("display", r))


@method("code_str", "red", "blue", "bold", "magenta", "to_string_lossy")
def m_style(it, recv, args, e, mod, discard):
    r = it.deref(recv)
    return r


@method("should_colorize")
def m_should_colorize(it, recv, args, e, mod, discard):
    return False


@method("is_alphabetic", "is_alphanumeric", "is_whitespace", "is_ascii_digit")
def m_char_class(it, recv, args, e, mod, discard):
    if it.text is None:
        raise InternalError("char predicate without a text model")
    return it.text.char_pred(it, e["method"], it.resolve(recv))


@method("len_utf8")
def m_len_utf8(it, recv, args, e, mod, discard):
    from .text import utf8_width
    c = it.resolve(recv)
    if not isinstance(c, Char):
        raise InternalError("len_utf8 on %r" % (c,))
    return utf8_width(c.v)


@method("count")
def m_count(it, recv, args, e, mod, discard):
    return len(list(it.iterate(recv)))


@method("char_indices", "as_bytes", "split", "trim_end", "find", "repeat", "next_boundary", "chars", "parse")
def m_text(it, recv, args, e, mod, discard):
    if it.text is None:
        raise InternalError("text method %s without a text model" % e["method"])
    return it.text.method(it, e["method"], it.deref(recv), args, e, mod)


# ---------------------------------------------------------------------------------------------
# usize helper methods (plain machine words below 2^62, see DESIGN.md 2.2)
def _usz2(it, recv, args, name):
    a, b = it.resolve(it.deref(recv)), it.resolve(it.deref(args[0]))
    for x in (a, b):
        if isinstance(x, bool) or not (isinstance(x, int) or is_sym(x)):
            raise InternalError("%s on %s" % (name, type(x).__name__))
    return a, b


@method("saturating_sub")
def m_saturating_sub(it, recv, args, e, mod, discard):
    a, b = _usz2(it, recv, args, "saturating_sub")
    if isinstance(a, int) and isinstance(b, int):
        return max(a - b, 0)
    return z_ite(a >= b, a - b, 0)


@method("saturating_add", "wrapping_add")
def m_saturating_add(it, recv, args, e, mod, discard):
    a, b = _usz2(it, recv, args, "saturating_add")
    return a + b


@method("checked_sub")
def m_checked_sub(it, recv, args, e, mod, discard):
    a, b = _usz2(it, recv, args, "checked_sub")
    if isinstance(a, int) and isinstance(b, int):
        return some(a - b) if a >= b else none()
    return some(a - b) if it.ex.branch(a >= b) else none()


@method("checked_add")
def m_checked_add(it, recv, args, e, mod, discard):
    a, b = _usz2(it, recv, args, "checked_add")
    return some(a + b)


@method("abs_diff")
def m_abs_diff(it, recv, args, e, mod, discard):
    a, b = _usz2(it, recv, args, "abs_diff")
    if isinstance(a, int) and isinstance(b, int):
        return abs(a - b)
    return z_ite(a >= b, a - b, b - a)


# ---------------------------------------------------------------------------------------------
# associated functions and free functions from std
@builtin("Rc::new")
def b_rc_new(it, args, e, mod):
    return args[0]


@builtin("Rc::ptr_eq")
def b_ptr_eq(it, args, e, mod):
    a = it.resolve(args[0])
    b = it.resolve(args[1])
    return a is b


@builtin("RefCell::new")
def b_refcell_new(it, args, e, mod):
    if it.fn_stack and it.fn_stack[-1] == "open":
        # de_bruijn::open met an unresolved hole and replaces it by a fresh, unrelated one
        it.ex.event("open_fresh_hole")
    return CellV(it.ex.fresh("cell"), content=args[0])


@builtin("HashSet::new")
def b_set_new(it, args, e, mod):
    return _I().SetV()


@builtin("HashMap::new", "Cache::new")
def b_map_new(it, args, e, mod):
    return _I().MapV()


@builtin("String::new")
def b_string_new(it, args, e, mod):
    return Str("")


@builtin("isize::try_from")
def b_isize_try_from(it, args, e, mod):
    v = it.resolve(args[0])
    if isinstance(v, ISz):
        return ok(v)
    if isinstance(v, Big):
        raise InternalError("isize::try_from(BigInt)")
    return ok(ISz(v))


@builtin("usize::try_from")
def b_usize_try_from(it, args, e, mod):
    v = it.resolve(args[0])
    if isinstance(v, ISz):
        if it.truth(v.v >= 0 if is_sym(v.v) else v.v >= 0):
            return ok(v.v)
        return err(Opaque("TryFromIntError"))
    return ok(v)


@builtin("min")
def b_min(it, args, e, mod):
    a, b = it.resolve(args[0]), it.resolve(args[1])
    if isinstance(a, int) and isinstance(b, int):
        return min(a, b)
    return z_ite(a <= b, a, b)


@builtin("max")
def b_max(it, args, e, mod):
    a, b = it.resolve(args[0]), it.resolve(args[1])
    if isinstance(a, int) and isinstance(b, int):
        return max(a, b)
    return z_ite(a >= b, a, b)


@builtin("once")
def b_once(it, args, e, mod):
    return _I().IterV([args[0]])


@builtin("BigInt::parse_bytes", "BigInt::from", "GraphemeCursor::new")
def b_text(it, args, e, mod):
    if it.text is None:
        raise InternalError("text function without a text model")
    return it.text.function(it, "::".join(e["f"]["path"]), args, e, mod)


# ---------------------------------------------------------------------------------------------
# default stubs for gram's own diagnostics plumbing (DESIGN.md 2.3): the rendered text is not
# modelled; an Error remembers its message template and the source range handed to `listing`.
def stub_listing(it, args):
    return Struct("ListingV", {"range": args[1]})


def stub_throw(it, args):
    msg, path, listing, reason = args
    rng = None
    l = it.resolve(listing)
    if isinstance(l, Adt) and l.variant == "Some":
        lv = it.deref(l.fields[0])
        if isinstance(lv, Struct) and lv.name == "ListingV":
            rng = lv.fields["range"]
    template = msg
    if isinstance(msg, Str) and msg.s is None and msg.parts:
        template = msg.parts[0]
    elif isinstance(msg, Str):
        template = msg.s
    return Struct("error::Error", {"message": Str(None, ("throw", msg)), "reason": none(),
                                   "template": template, "range": rng, "msg_parts": msg})


def install_default_stubs(interp):
    interp.stubs["listing"] = stub_listing
    interp.stubs["throw"] = stub_throw
