"""Run one forking exploration on several cores.

The decision tree is cut at a small depth in the parent; the subtrees below the cut are explored by
worker *processes started afresh* (same command line, GRAMSYM_WORKER set), which claim subtree roots
from a shared directory (dynamic balancing).  Statistics and already concretised counterexamples
are merged in the parent.  (Forked workers were tried first and were an order of magnitude slower
in system time; fresh processes are not.)
"""
import json
import os
import pickle
import subprocess
import sys
import tempfile
import time
import traceback

from .explorer import Explorer, SplitPoint

_CALLS = [0]


def worker_spec():
    w = os.environ.get("GRAMSYM_WORKER")
    if not w:
        return None
    call, idx, tmp = w.split(":", 2)
    return int(call), int(idx), tmp


def is_worker():
    return worker_spec() is not None


class Merged:
    def __init__(self):
        self.stats = {}
        self.violations = []
        self.counters = {}
        self.samples = []
        self.functions = set()
        self.exhausted = True
        self.errors = []
        self.workers = 0

    def add(self, r):
        if r.get("error"):
            self.errors.append(r["error"])
            self.exhausted = False
            return
        for k, v in r["stats"].items():
            if isinstance(v, (int, float)) and not isinstance(v, bool):
                if k == "max_trace":
                    self.stats[k] = max(self.stats.get(k, 0), v)
                else:
                    self.stats[k] = self.stats.get(k, 0) + v
        self.violations.extend(r["violations"])
        for k, v in r["counters"].items():
            self.counters[k] = self.counters.get(k, 0) + v
        self.samples.extend(r["samples"])
        self.functions |= set(r["functions"])
        self.exhausted = self.exhausted and r["exhausted"]


def _result(ex):
    return {"stats": ex.stats.as_dict(), "violations": [(v.label, v.info, v.trace) for v in ex.violations],
            "counters": dict(ex.counters), "samples": list(ex.samples), "functions": sorted(ex.functions_executed),
            "exhausted": ex.exhausted, "error": None}


CHUNK_SECONDS = 6.0


def _run_worker(make, widx, tmp):
    """Worker process: claim chunks of subtree roots until none is left; a chunk that takes longer
    than CHUNK_SECONDS hands its unexplored subtrees back to the pool (dynamic balancing)."""
    out = None
    try:
        ex, thunk, on_end = make()
        ex.keep_leftover = True
        extra = 0
        busy = os.path.join(tmp, "busy_%d" % widx)
        while True:
            names = sorted(f for f in os.listdir(tmp) if f.startswith("chunk_") and f.endswith(".json"))
            got = None
            for f in names:
                try:
                    fd = os.open(os.path.join(tmp, "claim_" + f), os.O_CREAT | os.O_EXCL | os.O_WRONLY)
                    os.close(fd)
                    got = f
                    break
                except FileExistsError:
                    continue
            if got is None:
                if not any(f.startswith("busy_") for f in os.listdir(tmp)):
                    break
                time.sleep(0.1)
                continue
            open(busy, "w").close()
            try:
                with open(os.path.join(tmp, got)) as fh:
                    chunk = json.load(fh)
                ex.deadline = time.time() + CHUNK_SECONDS
                ex.leftover = []
                ex.explore(thunk, on_end, initial_traces=chunk)
                left = ex.leftover
                ex.leftover = []
                if os.environ.get("GRAMSYM_PAR_DEBUG"):
                    with open("/tmp/gramsym-par-debug.log", "a") as dbg:
                        dbg.write("worker %d %s: %d roots, paths so far %d, leftover %d, t=%.1f cpu=%.1f\n" % (widx, got, len(chunk), ex.stats.paths, len(left), time.time() % 1000, sum(os.times()[:2])))
                if left:
                    per = max(1, len(left) // 4)
                    for i in range(0, len(left), per):
                        path = os.path.join(tmp, "chunk_x%d_%d.json" % (widx, extra))
                        extra += 1
                        with open(path + ".tmp", "w") as fh:
                            json.dump(left[i:i + per], fh)
                        os.rename(path + ".tmp", path)
            finally:
                try:
                    os.unlink(busy)
                except OSError:
                    pass
        ex.deadline = None
        out = _result(ex)
    except BaseException as e:
        out = {"error": "worker %d: %r\n%s" % (widx, e, traceback.format_exc())}
    with open(os.path.join(tmp, "result_%d.pkl" % widx), "wb") as fh:
        pickle.dump(out, fh)
    sys.stdout.flush()
    os._exit(0)


def parallel_explore(make, jobs, min_frontier=None):
    """make() -> (explorer, thunk, on_end).  Violations must carry picklable `info`."""
    call = _CALLS[0]
    _CALLS[0] += 1
    spec = worker_spec()
    if spec is not None:
        wcall, widx, tmp = spec
        if wcall != call:
            return Merged()          # another part of the check: nothing to do in this worker
        _run_worker(make, widx, tmp)
    jobs = max(1, jobs)
    out = Merged()
    ex, thunk, on_end = make()
    if jobs == 1:
        ex.explore(thunk, on_end)
        out.add(_result(ex))
        return out
    want = min_frontier or jobs * 8
    t_start = time.time()
    pending = [[]]
    depth = 6
    while True:
        # cut the decision tree at `depth`: paths that end above the cut are complete, the others
        # are recorded as subtree roots; the next round refines only those roots
        ex.split_depth = depth
        ex.frontier = []
        ex.explore(thunk, on_end, initial_traces=pending)
        pending = ex.frontier
        if os.environ.get("GRAMSYM_PAR_DEBUG"):
            print("split depth %d: %d subtrees pending, %d paths done in parent, %.1fs" % (depth, len(pending), ex.stats.paths, time.time() - t_start), flush=True)
        if len(pending) >= want or not pending or depth >= 60:
            break
        if len(pending) >= jobs and time.time() - t_start > 2.0:
            break
        depth += 4
    ex.split_depth = None
    out.add(_result(ex))
    frontier = pending
    if not frontier:
        return out
    per = max(1, len(frontier) // (jobs * 4))
    chunks = [frontier[i:i + per] for i in range(0, len(frontier), per)]
    tmp = tempfile.mkdtemp(prefix="gramsym-par-")
    for ci, chunk in enumerate(chunks):
        with open(os.path.join(tmp, "chunk_%05d.json" % ci), "w") as fh:
            json.dump(chunk, fh)
    nworkers = min(jobs, max(len(chunks), 2))
    procs = []
    for w in range(nworkers):
        env = dict(os.environ)
        env["GRAMSYM_WORKER"] = "%d:%d:%s" % (call, w, tmp)
        procs.append(subprocess.Popen([sys.executable] + sys.argv, env=env, stdout=subprocess.DEVNULL, stderr=subprocess.DEVNULL))
    for w, p in enumerate(procs):
        p.wait()
        path = os.path.join(tmp, "result_%d.pkl" % w)
        if os.path.exists(path):
            with open(path, "rb") as fh:
                out.add(pickle.load(fh))
        else:
            out.add({"error": "worker %d produced no result (exit status %s)" % (w, p.returncode)})
    for f in os.listdir(tmp):
        try:
            os.unlink(os.path.join(tmp, f))
        except OSError:
            pass
    try:
        os.rmdir(tmp)
    except OSError:
        pass
    out.workers = nworkers
    return out
