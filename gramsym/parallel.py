"""Run one forking exploration on several cores: the decision tree is cut at a small depth, the
subtrees below the cut are explored by forked worker processes, statistics and (already concretised)
counterexamples are merged."""
import multiprocessing
import os
import time
import traceback

from .explorer import Explorer, SplitPoint

_JOB = {}


def _worker(args):
    idx, prefixes = args
    make = _JOB["make"]
    try:
        ex, thunk, on_end = make()
        ex.explore(thunk, on_end, initial_traces=prefixes)
        return {"stats": ex.stats.as_dict(), "violations": [(v.label, v.info, v.trace) for v in ex.violations],
                "counters": dict(ex.counters), "samples": list(ex.samples), "functions": sorted(ex.functions_executed),
                "exhausted": ex.exhausted, "error": None}
    except Exception as e:      # an internal error in a worker makes the whole check inconclusive
        return {"error": "%r\n%s" % (e, traceback.format_exc())}


class Merged:
    def __init__(self):
        self.stats = {}
        self.violations = []
        self.counters = {}
        self.samples = []
        self.functions = set()
        self.exhausted = True
        self.errors = []
        self.workers = 0

    def add(self, r):
        if r.get("error"):
            self.errors.append(r["error"])
            self.exhausted = False
            return
        for k, v in r["stats"].items():
            if isinstance(v, (int, float)) and not isinstance(v, bool):
                if k == "max_trace":
                    self.stats[k] = max(self.stats.get(k, 0), v)
                else:
                    self.stats[k] = self.stats.get(k, 0) + v
        self.violations.extend(r["violations"])
        for k, v in r["counters"].items():
            self.counters[k] = self.counters.get(k, 0) + v
        self.samples.extend(r["samples"])
        self.functions |= set(r["functions"])
        self.exhausted = self.exhausted and r["exhausted"]


def parallel_explore(make, jobs, min_frontier=None, max_split_depth=14):
    """make() -> (explorer, thunk, on_end).  Violations must carry JSON-serialisable `info`."""
    jobs = max(1, jobs)
    out = Merged()
    if jobs == 1:
        ex, thunk, on_end = make()
        ex.explore(thunk, on_end)
        out.add({"stats": ex.stats.as_dict(), "violations": [(v.label, v.info, v.trace) for v in ex.violations],
                 "counters": dict(ex.counters), "samples": list(ex.samples), "functions": sorted(ex.functions_executed),
                 "exhausted": ex.exhausted, "error": None})
        return out
    want = min_frontier or jobs * 16
    depth = 4
    while True:
        ex, thunk, on_end = make()
        ex.split_depth = depth
        ex.explore(thunk, on_end)
        if len(ex.frontier) >= want or depth >= max_split_depth or not ex.frontier:
            break
        depth += 2
    out.add({"stats": ex.stats.as_dict(), "violations": [(v.label, v.info, v.trace) for v in ex.violations],
             "counters": dict(ex.counters), "samples": list(ex.samples), "functions": sorted(ex.functions_executed),
             "exhausted": ex.exhausted, "error": None})
    frontier = ex.frontier
    if not frontier:
        return out
    # forked workers; chunk i goes to worker i mod jobs (interleaved: neighbouring subtrees have
    # similar size, so this balances well); results come back through files
    import json
    import pickle
    import tempfile
    nworkers = min(jobs, len(frontier))
    tmp = tempfile.mkdtemp(prefix="gramsym-par-")
    pids = []
    for w in range(nworkers):
        mine = frontier[w::nworkers]
        pid = os.fork()
        if pid == 0:
            rc = 0
            try:
                _JOB["make"] = make
                r = _worker((w, mine))
                with open(os.path.join(tmp, "%d.pkl" % w), "wb") as fh:
                    pickle.dump(r, fh)
            except BaseException as e:
                try:
                    with open(os.path.join(tmp, "%d.pkl" % w), "wb") as fh:
                        pickle.dump({"error": "worker crashed: %r" % (e,)}, fh)
                except Exception:
                    pass
                rc = 1
            finally:
                os._exit(rc)
        pids.append(pid)
    for w, pid in enumerate(pids):
        os.waitpid(pid, 0)
        path = os.path.join(tmp, "%d.pkl" % w)
        if os.path.exists(path):
            with open(path, "rb") as fh:
                out.add(pickle.load(fh))
            os.unlink(path)
        else:
            out.add({"error": "worker %d produced no result" % w})
    try:
        os.rmdir(tmp)
    except OSError:
        pass
    out.workers = nworkers
    return out
