"""Helpers for the parser's pre-resolution syntax trees (`parser::Term`): construction of executor
values, conversion to/from the JSON understood by gram-replay, structural comparison."""
import z3

from .values import (Adt, Struct, TupleV, VecV, Big, Str, Union, InternalError, some, none, is_sym, z_and, z_or, z_eq)
from .terms import mval

PE = "parser::Variant"
PTERM = "parser::Term"
BIN = ["Application", "Sum", "Difference", "Product", "Quotient", "LessThan", "LessThanOrEqualTo", "EqualTo",
       "GreaterThan", "GreaterThanOrEqualTo"]


def sr(start, end):
    return Struct("error::SourceRange", {"start": start, "end": end})


def pmk(variant, fields, rng, group=False):
    return Struct(PTERM, {"source_range": rng, "group": group, "variant": Adt(PE, variant, list(fields)), "errors": VecV()})


def svar(name, rng):
    return Struct("parser::SourceVariable", {"source_range": rng, "name": name})


def to_json(t, model):
    """parser::Term value -> JSON (scalars evaluated in the model)."""
    f = t.fields
    v = f["variant"]
    r = f["source_range"]
    j = {"v": v.variant, "group": mval(model, f["group"]) if not isinstance(f["group"], bool) else f["group"],
         "sr": [mval(model, r.fields["start"]), mval(model, r.fields["end"])]}
    a = v.fields
    c = v.variant

    def sv(x):
        return {"name": name_str(x.fields["name"], model), "sr": [mval(model, x.fields["source_range"].fields["start"]), mval(model, x.fields["source_range"].fields["end"])]}

    def opt(o):
        return None if o.variant == "None" else to_json(o.fields[0], model)
    if c == "Variable":
        j["name"] = name_str(a[0], model)
    elif c == "Lambda":
        j["var"] = sv(a[0])
        j["implicit"] = mval(model, a[1]) if not isinstance(a[1], bool) else a[1]
        j["domain"] = opt(a[2])
        j["body"] = to_json(a[3], model)
    elif c == "Pi":
        j["var"] = sv(a[0])
        j["implicit"] = mval(model, a[1]) if not isinstance(a[1], bool) else a[1]
        j["domain"] = to_json(a[2], model)
        j["codomain"] = to_json(a[3], model)
    elif c == "Let":
        j["var"] = sv(a[0])
        j["ann"] = opt(a[1])
        j["def"] = to_json(a[2], model)
        j["body"] = to_json(a[3], model)
    elif c == "IntegerLiteral":
        j["value"] = str(mval(model, a[0]))
    elif a:
        j["kids"] = [to_json(x, model) for x in a]
    return j


def name_str(n, model):
    if isinstance(n, str):
        return n
    if hasattr(n, "concrete"):
        return n.concrete(model)
    raise InternalError("name %r" % (n,))


def show(j):
    c = j["v"]
    g = "g" if j.get("group") else ""
    if c == "Variable":
        s = j["name"]
    elif c == "IntegerLiteral":
        s = j["value"]
    elif c == "Lambda":
        s = "(%s%s%s => %s)" % ("{" if j["implicit"] else "", j["var"]["name"] + (" : " + show(j["domain"]) if j["domain"] else ""), "}" if j["implicit"] else "", show(j["body"]))
    elif c == "Pi":
        s = "((%s : %s) -> %s)" % (j["var"]["name"], show(j["domain"]), show(j["codomain"]))
    elif c == "Let":
        s = "(%s%s = %s; %s)" % (j["var"]["name"], " : " + show(j["ann"]) if j["ann"] else "", show(j["def"]), show(j["body"]))
    elif not j.get("kids"):
        s = c
    else:
        s = "(%s %s)" % (c, " ".join(show(k) for k in j["kids"]))
    return s + g


def shape(j, ranges=True, groups=False):
    """Canonical comparison form of parser-term JSON."""
    out = {"v": j["v"]}
    if ranges:
        out["sr"] = j["sr"]
    if groups:
        out["group"] = j.get("group", False)
    for k in ("name", "value", "implicit"):
        if k in j:
            out[k] = j[k]
    for k in ("domain", "body", "codomain", "ann", "def"):
        if k in j:
            out[k] = None if j[k] is None else shape(j[k], ranges, groups)
    if "var" in j:
        out["var"] = j["var"] if ranges else j["var"]["name"]
    if "kids" in j:
        out["kids"] = [shape(k, ranges, groups) for k in j["kids"]]
    return out
