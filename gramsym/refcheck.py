"""Reference type checker for explicitly typed terms (oracle for C03/C04/C05/C18), with its own
weak-head normaliser and conversion test.  Independent of gram's checker: contexts are lists of
(type, definition, level) entries, lookups shift by the level difference, groups are typed by their
annotations and unfolded on demand.

It runs in the forking mode of the executor: term shapes are concrete per path (nodes are
concretised on demand), scalars may be symbolic (indices are pinned by a decision when a context
lookup needs them; literal comparisons fork).
"""
import z3

from .values import (Adt, Struct, TupleV, VecV, Big, Union, InternalError, is_sym, z_and, z_or, z_not, z_ite, z_eq)
from .inputs import InputTerm, ARITY
from . import terms as T
from .refs import Refs, RefUnknown
from .methods import trunc_div


class Reject(Exception):
    def __init__(self, why, where=None, roles=()):
        Exception.__init__(self, why)
        self.why = why
        self.where = where
        self.roles = tuple(roles)


class Entry:
    __slots__ = ("type", "defn", "level")

    def __init__(self, type_, defn, level):
        self.type = type_
        self.defn = defn
        self.level = level


TYPE = T.mk("Type")
INT = T.mk("Integer")
BOOL = T.mk("Boolean")


class RefChecker:
    def __init__(self, ex, concretize=None, fuel=4000, it=None):
        self.ex = ex
        self.R = Refs(ex, concretize)
        self.R.follow_holes = True
        self.R.holes_neutral = True
        self.R.work_left = fuel * 4
        self.fuel = fuel
        self.it = it
        self.roles = []     # which part of the program is being judged (for attributing findings)

    # ------------------------------------------------------------------------------------
    def tick(self):
        self.fuel -= 1
        if self.fuel < 0:
            raise RefUnknown("reference out of fuel")

    def view(self, t, holes_ok=False):
        """(ctor, adt) of a term, following solved holes.  Unsolved holes are heads of their own
        when `holes_ok`, otherwise the case is outside what the reference can judge."""
        vs = self.R.views(t)
        if len(vs) != 1:
            if isinstance(t, InputTerm) or len(vs) == 0:
                raise InternalError("reference checker needs a concrete constructor")
            i = self.ex.decide([g for g, _, _ in vs])
            vs = [vs[i]]
        _, ct, adt = vs[0]
        if ct == "Unifier" and not holes_ok:
            raise RefUnknown("unresolved hole")
        return ct, adt

    def pin(self, idx, n):
        """Concrete value of an index below n, or None if it is >= n."""
        if isinstance(idx, int):
            return idx if idx < n else None
        k = self.ex.decide([idx == i for i in range(n)] + [idx >= n])
        return k if k < n else None

    def up(self, t, k):
        if k == 0:
            return t
        _, r = self.R.shift(t, 0, k)
        return r

    # ------------------------------------------------------------------------------------
    def close_group(self, t, defs):
        """t lives under the n binders of the group `defs`; replace each group variable by the
        group itself (a Let whose body is that variable), yielding a term of the outer scope."""
        n = len(defs)
        for i in range(n):
            j = n - 1 - i
            k = n - i - 1
            wdefs = []
            for (x, ann, d) in defs:
                _, a2 = self.R.shift(ann, n, k)
                _, d2 = self.R.shift(d, n, k)
                wdefs.append((x, a2, d2))
            w = T.let(wdefs, T.var(defs[j][0], i))
            t = self.R.subst(t, 0, w, 0)
        return t

    def whnf(self, t, ctx):
        self.tick()
        ct, adt = self.view(t, holes_ok=True)
        f = adt.fields
        if ct in ("Type", "Lambda", "Pi", "Integer", "IntegerLiteral", "Boolean", "True", "False", "Unifier"):
            return self.rebuild(t, ct, adt)
        if ct == "Variable":
            i = self.pin(f[1], len(ctx))
            if i is None:
                return self.rebuild(t, ct, adt)
            e = ctx[len(ctx) - 1 - i]
            if e.defn is None:
                return T.var(f[0], i)
            return self.whnf(self.up(e.defn, len(ctx) - e.level), ctx)
        if ct == "Application":
            wf = self.whnf(f[0], ctx)
            c2, a2 = self.view(wf, True)
            if c2 == "Lambda":
                return self.whnf(self.R.subst(a2.fields[3], 0, f[1], 0), ctx)
            return T.mk("Application", [wf, f[1]])
        if ct.startswith("Let"):
            # normalise the body under the group's binders (group members unfold by delta in the
            # extended context), then close what is left over the group
            defs = [tuple(d) for d in f[0]]
            n = len(defs)
            level = len(ctx) + n
            ctx2 = ctx + [Entry(ann, d, level) for (_, ann, d) in defs]
            return self.close_group(self.whnf(f[1], ctx2), defs)
        if ct == "Negation":
            w = self.whnf(f[0], ctx)
            c2, a2 = self.view(w, True)
            if c2 == "IntegerLiteral":
                return T.lit(-a2.fields[0].v)
            return T.mk(ct, [w])
        if ct == "If":
            w = self.whnf(f[0], ctx)
            c2, _ = self.view(w, True)
            if c2 == "True":
                return self.whnf(f[1], ctx)
            if c2 == "False":
                return self.whnf(f[2], ctx)
            return T.mk(ct, [w, f[1], f[2]])
        # binary operators
        l = self.whnf(f[0], ctx)
        r = self.whnf(f[1], ctx)
        cl, al = self.view(l, True)
        cr, ar = self.view(r, True)
        if cl == "IntegerLiteral" and cr == "IntegerLiteral":
            a, b = al.fields[0].v, ar.fields[0].v
            if ct == "Sum":
                return T.lit(a + b)
            if ct == "Difference":
                return T.lit(a - b)
            if ct == "Product":
                return T.lit(a * b)
            if ct == "Quotient":
                zero = z_eq(b, 0)
                if (zero if isinstance(zero, bool) else self.ex.branch(zero)):
                    return T.mk(ct, [l, r])
                return T.lit(trunc_div(a, b))
            cond = {"LessThan": lambda: a < b, "LessThanOrEqualTo": lambda: a <= b, "EqualTo": lambda: z_eq(a, b),
                    "GreaterThan": lambda: a > b, "GreaterThanOrEqualTo": lambda: a >= b}[ct]()
            if not isinstance(cond, bool):
                cond = self.ex.branch(cond)
            return T.mk("True" if cond else "False")
        return T.mk(ct, [l, r])

    def rebuild(self, t, ct, adt):
        """The term itself with its head made explicit (solved holes followed)."""
        if isinstance(t, InputTerm):
            return t
        if isinstance(t, Struct) and isinstance(t.fields["variant"], Adt) and t.fields["variant"] is adt:
            return t
        return Struct(T.TERM, {"source_range": T.none(), "variant": adt})

    # ------------------------------------------------------------------------------------
    def conv(self, a, b, ctx):
        """Definitional equality (beta, delta, group unfolding, arithmetic, conditionals); lambda
        domains are not compared."""
        self.tick()
        wa = self.whnf(a, ctx)
        wb = self.whnf(b, ctx)
        ca, xa = self.view(wa, True)
        cb, xb = self.view(wb, True)
        if ca != cb:
            return False
        fa, fb = xa.fields, xb.fields
        if ca == "Unifier":
            if fa[0] is not fb[0]:
                return False
            e = z_eq(fa[1], fb[1])
            return e if isinstance(e, bool) else self.ex.branch(e)
        if ca == "Variable":
            e = z_eq(fa[1], fb[1])
            return e if isinstance(e, bool) else self.ex.branch(e)
        if ca == "IntegerLiteral":
            e = z_eq(fa[0].v, fb[0].v)
            return e if isinstance(e, bool) else self.ex.branch(e)
        if ca in ("Lambda", "Pi"):
            e = z_eq(fa[1], fb[1])
            if not (e if isinstance(e, bool) else self.ex.branch(e)):
                return False
            if ca == "Pi" and not self.conv(fa[2], fb[2], ctx):
                return False
            return self.conv(fa[3], fb[3], ctx + [Entry(None, None, len(ctx))])
        if ARITY.get(ca, 0) == 0:
            return True
        for x, y in zip(fa, fb):
            if not self.conv(x, y, ctx):
                return False
        return True

    # ------------------------------------------------------------------------------------
    def is_type(self, t, ctx, what):
        ty = self.infer(t, ctx)
        if not self.conv(ty, TYPE, ctx):
            raise Reject("%s is not a type" % what, t, self.roles)

    def expect(self, t, ctx, want, what):
        ty = self.infer(t, ctx)
        if not self.conv(ty, want, ctx):
            raise Reject("%s has the wrong type" % what, t, self.roles)

    def infer(self, t, ctx):
        self.tick()
        ct, adt = self.view(t)
        f = adt.fields
        if ct in ("Type", "Integer", "Boolean"):
            return TYPE
        if ct == "Variable":
            i = self.pin(f[1], len(ctx))
            if i is None:
                raise Reject("unbound variable", t, self.roles)
            e = ctx[len(ctx) - 1 - i]
            return self.up(e.type, len(ctx) - e.level)
        if ct == "Lambda":
            self.is_type(f[2], ctx, "the domain")
            body_ty = self.infer(f[3], ctx + [Entry(f[2], None, len(ctx))])
            return T.mk("Pi", [f[0], f[1], f[2], body_ty])
        if ct == "Pi":
            self.is_type(f[2], ctx, "the domain")
            self.is_type(f[3], ctx + [Entry(f[2], None, len(ctx))], "the codomain")
            return TYPE
        if ct == "Application":
            fty = self.whnf(self.infer(f[0], ctx), ctx)
            c2, a2 = self.view(fty)
            if c2 != "Pi":
                raise Reject("applicand is not a function", f[0], self.roles)
            imp = a2.fields[1]
            if (imp if isinstance(imp, bool) else self.ex.branch(imp)):
                # gram has no implicit-argument inference: an implicit function cannot be applied
                raise Reject("applicand takes an implicit argument", f[0], self.roles)
            self.expect(f[1], ctx, a2.fields[2], "the argument")
            return self.R.subst(a2.fields[3], 0, f[1], 0)
        if ct.startswith("Let"):
            defs = [tuple(d) for d in f[0]]
            n = len(defs)
            level = len(ctx) + n
            ctx2 = ctx + [Entry(ann, d, level) for (_, ann, d) in defs]
            for (x, ann, d) in defs:
                self.roles.append("annotation")
                try:
                    self.is_type(ann, ctx2, "the annotation of %s" % x)
                finally:
                    self.roles.pop()
            for (x, ann, d) in defs:
                self.expect(d, ctx2, ann, "the definition of %s" % x)
            body_ty = self.infer(f[1], ctx2)
            return self.close_group(body_ty, defs)
        if ct == "IntegerLiteral":
            return INT
        if ct == "Negation":
            self.expect(f[0], ctx, INT, "the operand")
            return INT
        if ct in ("Sum", "Difference", "Product", "Quotient"):
            self.expect(f[0], ctx, INT, "the left operand")
            self.expect(f[1], ctx, INT, "the right operand")
            return INT
        if ct in ("LessThan", "LessThanOrEqualTo", "EqualTo", "GreaterThan", "GreaterThanOrEqualTo"):
            self.expect(f[0], ctx, INT, "the left operand")
            self.expect(f[1], ctx, INT, "the right operand")
            return BOOL
        if ct in ("True", "False"):
            return BOOL
        if ct == "If":
            self.expect(f[0], ctx, BOOL, "the condition")
            a = self.infer(f[1], ctx)
            b = self.infer(f[2], ctx)
            if not self.conv(a, b, ctx):
                raise Reject("the branches have different types", t, self.roles)
            return a
        raise InternalError("infer: " + ct)


def context_from(typing, defs):
    """Reference context from gram's (typing_context, definitions_context) vectors: entry i is valid
    in a context of length i + offset."""
    out = []
    for i, (te, de) in enumerate(zip(typing, defs)):
        ty, off = te
        d = None
        if de is not None:
            d = de[0]
        out.append(Entry(ty, d, i + off))
    return out
