"""Reference models (oracles), written independently of gram's code, operating on the same value
representation so that they are evaluated symbolically together with the real code.

Every reference iterates over `views(ex, t)` -- the possible outermost constructors of a term on the
current path -- and merges the per-constructor results, so the same text serves the forking mode
(one view per node) and the merged mode (one view per allowed constructor).
"""
import z3

from .values import (Adt, Struct, TupleV, VecV, Big, Union, InternalError, is_sym, z_and, z_or, z_not, z_ite,
                     z_eq, some, none)
from .inputs import ARITY
from . import terms as T
from .merge import merge


def _k(x):
    if is_sym(x):
        return ("z", x.get_id())
    return x


class Refs:
    def __init__(self, ex):
        self.ex = ex
        self.memo = {}
        self.keep = []

    def _memo(self, key, t, extra=()):
        self.keep.append((t, extra))

    # -----------------------------------------------------------------------------------------
    # textbook shift: raise every index >= c by a; defined iff no index ends up below c
    def shift(self, t, c, a):
        """-> (defined: formula, term)"""
        key = ("shift", id(t), _k(c), _k(a))
        hit = self.memo.get(key)
        if hit is not None:
            return hit
        ex = self.ex
        alts = []
        defs = []
        sr = T.source_range_of(t)
        for g, ct, adt in T.views(ex, t):
            f = adt.fields
            if ct == "Variable":
                idx = f[1]
                d = z_or(idx < c, idx + a >= c)
                r = T.var(f[0], z_ite(idx >= c, idx + a, idx), sr)
            elif ct in ("Lambda", "Pi"):
                d1, t1 = self.shift(f[2], c, a)
                d2, t2 = self.shift(f[3], c + 1, a)
                d, r = z_and(d1, d2), T.mk(ct, [f[0], f[1], t1, t2], sr)
            elif ct.startswith("Let"):
                n = len(f[0])
                ds, dd = [], []
                for (nm, an, de) in f[0]:
                    d1, t1 = self.shift(an, c + n, a)
                    d2, t2 = self.shift(de, c + n, a)
                    dd += [d1, d2]
                    ds.append((nm, t1, t2))
                d3, t3 = self.shift(f[1], c + n, a)
                d, r = z_and(*(dd + [d3])), T.let(ds, t3, sr)
            elif ct == "Unifier":
                raise InternalError("reference shift is defined on hole-free terms")
            elif ARITY[ct] == 0:
                d, r = True, t
            else:
                rs = [self.shift(k, c, a) for k in f]
                d, r = z_and(*[x[0] for x in rs]), T.mk(ct, [x[1] for x in rs], sr)
            alts.append((g, r))
            defs.append(z_and(g, d))
        res = (z_or(*defs), merge(alts))
        self.memo[key] = res
        self.keep.append((t, c, a))
        return res

    # -----------------------------------------------------------------------------------------
    # free variables at cutoff c, as a membership predicate over a symbolic k (k = index - c)
    def fv_member(self, t, c, k):
        key = ("fv", id(t), _k(c), _k(k))
        hit = self.memo.get(key)
        if hit is not None:
            return hit
        ex = self.ex
        parts = []
        for g, ct, adt in T.views(ex, t):
            f = adt.fields
            if ct == "Variable":
                m = z_and(f[1] >= c, z_eq(f[1] - c, k))
            elif ct in ("Lambda", "Pi"):
                m = z_or(self.fv_member(f[2], c, k), self.fv_member(f[3], c + 1, k))
            elif ct.startswith("Let"):
                n = len(f[0])
                ms = []
                for (nm, an, de) in f[0]:
                    ms.append(self.fv_member(an, c + n, k))
                    ms.append(self.fv_member(de, c + n, k))
                ms.append(self.fv_member(f[1], c + n, k))
                m = z_or(*ms)
            elif ct == "Unifier":
                raise InternalError("reference fv is defined on hole-free terms")
            elif ARITY[ct] == 0:
                m = False
            else:
                m = z_or(*[self.fv_member(x, c, k) for x in f])
            parts.append(z_and(g, m))
        res = z_or(*parts)
        self.memo[key] = res
        self.keep.append((t, c, k))
        return res

    def fv_occurrences(self, t, c):
        """[(guard, relative index)] for every variable occurrence that is free at cutoff c."""
        key = ("occ", id(t), _k(c))
        hit = self.memo.get(key)
        if hit is not None:
            return hit
        ex = self.ex
        out = []
        for g, ct, adt in T.views(ex, t):
            f = adt.fields
            if ct == "Variable":
                out.append((z_and(g, f[1] >= c), f[1] - c))
                continue
            if ct in ("Lambda", "Pi"):
                sub = self.fv_occurrences(f[2], c) + self.fv_occurrences(f[3], c + 1)
            elif ct.startswith("Let"):
                n = len(f[0])
                sub = []
                for (nm, an, de) in f[0]:
                    sub += self.fv_occurrences(an, c + n) + self.fv_occurrences(de, c + n)
                sub += self.fv_occurrences(f[1], c + n)
            elif ct == "Unifier":
                raise InternalError("reference fv is defined on hole-free terms")
            elif ARITY[ct] == 0:
                sub = []
            else:
                sub = []
                for x in f:
                    sub += self.fv_occurrences(x, c)
            out += [(z_and(g, g2), e) for g2, e in sub]
        self.memo[key] = out
        self.keep.append((t, c))
        return out

    # -----------------------------------------------------------------------------------------
    # textbook De Bruijn substitution: t[x := shift(u, s)] with indices above x lowered by one;
    # under a binder x and s grow by one.
    def subst(self, t, x, u, s):
        key = ("subst", id(t), _k(x), id(u), _k(s))
        hit = self.memo.get(key)
        if hit is not None:
            return hit
        ex = self.ex
        alts = []
        sr = T.source_range_of(t)
        for g, ct, adt in T.views(ex, t):
            f = adt.fields
            if ct == "Variable":
                idx = f[1]
                _, ushift = self.shift(u, 0, s)
                keep = T.var(f[0], z_ite(idx > x, idx - 1, idx), sr)
                r = merge([(z_eq(idx, x), ushift), (z_not(z_eq(idx, x)), keep)])
            elif ct in ("Lambda", "Pi"):
                r = T.mk(ct, [f[0], f[1], self.subst(f[2], x, u, s), self.subst(f[3], x + 1, u, s + 1)], sr)
            elif ct.startswith("Let"):
                n = len(f[0])
                ds = [(nm, self.subst(an, x + n, u, s + n), self.subst(de, x + n, u, s + n)) for (nm, an, de) in f[0]]
                r = T.let(ds, self.subst(f[1], x + n, u, s + n), sr)
            elif ct == "Unifier":
                raise InternalError("reference substitution is defined on hole-free terms")
            elif ARITY[ct] == 0:
                r = t
            else:
                r = T.mk(ct, [self.subst(k, x, u, s) for k in f], sr)
            alts.append((g, r))
        res = merge(alts)
        self.memo[key] = res
        self.keep.append((t, x, u, s))
        return res
