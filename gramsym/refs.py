"""Reference models (oracles), written independently of gram's code, operating on the same value
representation so that they are evaluated symbolically together with the real code.

Every reference iterates over `views(ex, t)` -- the possible outermost constructors of a term on the
current path -- and merges the per-constructor results, so the same text serves the forking mode
(one view per node) and the merged mode (one view per allowed constructor).
"""
import z3

from .values import (Adt, Struct, TupleV, VecV, Big, Union, InternalError, is_sym, z_and, z_or, z_not, z_ite,
                     z_eq, some, none)
from .inputs import ARITY
from . import terms as T
from .merge import merge


def _k(x):
    if is_sym(x):
        return ("z", x.get_id())
    return x


class RefUnknown(Exception):
    """The reference cannot judge (fuel, unresolved hole): the case is outside the claim."""

    def __init__(self, why):
        Exception.__init__(self, why)
        self.why = why


class Refs:
    follow_holes = False
    holes_neutral = False

    def __init__(self, ex, concretize=None):
        self.ex = ex
        self.memo = {}
        self.keep = []
        # forking mode: decide the constructor of an input node before looking at it, so that the
        # reference follows one shape per path instead of expanding every alternative
        self.concretize = concretize
        self.work_left = None    # optional budget on reference work (node visits)

    def work(self):
        if self.work_left is not None:
            self.work_left -= 1
            if self.work_left < 0:
                raise RefUnknown("reference out of fuel")

    def views(self, t):
        self.work()
        if self.concretize is not None:
            from .inputs import InputTerm
            if isinstance(t, InputTerm):
                self.concretize(self.ex, t)
        vs = T.views(self.ex, t)
        if self.follow_holes and any(ct == "Unifier" for _, ct, _ in vs):
            out = []
            for g, ct, adt in vs:
                if ct != "Unifier":
                    out.append((g, ct, adt))
                    continue
                cell, shift = adt.fields
                content = self.ex.cell_get(cell)
                if isinstance(content, Union) or isinstance(cell, Union):
                    raise InternalError("merged hole cell in a reference")
                if content.variant != "Some":
                    if self.holes_neutral:
                        out.append((g, ct, adt))
                        continue
                    raise RefUnknown("unresolved hole")
                _, inner = self.shift(content.fields[0], 0, shift)
                for g2, c2, a2 in self.views(inner):
                    out.append((z_and(g, g2), c2, a2))
            return out
        return vs

    def _memo(self, key, t, extra=()):
        self.keep.append((t, extra))

    # -----------------------------------------------------------------------------------------
    # textbook shift: raise every index >= c by a; defined iff no index ends up below c
    def shift(self, t, c, a):
        """-> (defined: formula, term)"""
        key = ("shift", id(t), _k(c), _k(a))
        hit = self.memo.get(key)
        if hit is not None:
            return hit
        ex = self.ex
        alts = []
        defs = []
        sr = T.source_range_of(t)
        for g, ct, adt in self.views(t):
            f = adt.fields
            if ct == "Variable":
                idx = f[1]
                if self.concretize is not None:
                    # forking mode: decide the comparison instead of building an ite
                    ge = idx >= c
                    if (ge if isinstance(ge, bool) else ex.branch(ge)):
                        d = idx + a >= c
                        r = T.var(f[0], idx + a, sr)
                    else:
                        d, r = True, T.var(f[0], idx, sr)
                else:
                    d = z_or(idx < c, idx + a >= c)
                    r = T.var(f[0], z_ite(idx >= c, idx + a, idx), sr)
            elif ct in ("Lambda", "Pi"):
                d1, t1 = self.shift(f[2], c, a)
                d2, t2 = self.shift(f[3], c + 1, a)
                d, r = z_and(d1, d2), T.mk(ct, [f[0], f[1], t1, t2], sr)
            elif ct.startswith("Let"):
                n = len(f[0])
                ds, dd = [], []
                for (nm, an, de) in f[0]:
                    d1, t1 = self.shift(an, c + n, a)
                    d2, t2 = self.shift(de, c + n, a)
                    dd += [d1, d2]
                    ds.append((nm, t1, t2))
                d3, t3 = self.shift(f[1], c + n, a)
                d, r = z_and(*(dd + [d3])), T.let(ds, t3, sr)
            elif ct == "Unifier":
                if not self.holes_neutral:
                    raise InternalError("reference shift is defined on hole-free terms")
                # an unsolved hole with shift s stands for a term of the scope s levels up: it has no
                # free variable below s, so it moves like a variable of index s
                hs = f[1]
                if self.concretize is not None:
                    ge = hs >= c
                    if (ge if isinstance(ge, bool) else ex.branch(ge)):
                        d = hs + a >= c
                        r = T.unifier(f[0], hs + a, sr)
                    else:
                        d, r = True, T.unifier(f[0], hs, sr)
                else:
                    d = z_or(hs < c, hs + a >= c)
                    r = T.unifier(f[0], z_ite(hs >= c, hs + a, hs), sr)
            elif ARITY[ct] == 0:
                d, r = True, t
            else:
                rs = [self.shift(k, c, a) for k in f]
                d, r = z_and(*[x[0] for x in rs]), T.mk(ct, [x[1] for x in rs], sr)
            alts.append((g, r))
            defs.append(z_and(g, d))
        res = (z_or(*defs), merge(alts))
        self.memo[key] = res
        self.keep.append((t, c, a))
        return res

    # -----------------------------------------------------------------------------------------
    # free variables at cutoff c, as a membership predicate over a symbolic k (k = index - c)
    def fv_member(self, t, c, k):
        key = ("fv", id(t), _k(c), _k(k))
        hit = self.memo.get(key)
        if hit is not None:
            return hit
        ex = self.ex
        parts = []
        for g, ct, adt in self.views(t):
            f = adt.fields
            if ct == "Variable":
                m = z_and(f[1] >= c, z_eq(f[1] - c, k))
            elif ct in ("Lambda", "Pi"):
                m = z_or(self.fv_member(f[2], c, k), self.fv_member(f[3], c + 1, k))
            elif ct.startswith("Let"):
                n = len(f[0])
                ms = []
                for (nm, an, de) in f[0]:
                    ms.append(self.fv_member(an, c + n, k))
                    ms.append(self.fv_member(de, c + n, k))
                ms.append(self.fv_member(f[1], c + n, k))
                m = z_or(*ms)
            elif ct == "Unifier":
                if not self.holes_neutral:
                    raise InternalError("reference fv is defined on hole-free terms")
                m = False
            elif ARITY[ct] == 0:
                m = False
            else:
                m = z_or(*[self.fv_member(x, c, k) for x in f])
            parts.append(z_and(g, m))
        res = z_or(*parts)
        self.memo[key] = res
        self.keep.append((t, c, k))
        return res

    def fv_occurrences(self, t, c):
        """[(guard, relative index)] for every variable occurrence that is free at cutoff c."""
        key = ("occ", id(t), _k(c))
        hit = self.memo.get(key)
        if hit is not None:
            return hit
        ex = self.ex
        out = []
        for g, ct, adt in self.views(t):
            f = adt.fields
            if ct == "Variable":
                out.append((z_and(g, f[1] >= c), f[1] - c))
                continue
            if ct in ("Lambda", "Pi"):
                sub = self.fv_occurrences(f[2], c) + self.fv_occurrences(f[3], c + 1)
            elif ct.startswith("Let"):
                n = len(f[0])
                sub = []
                for (nm, an, de) in f[0]:
                    sub += self.fv_occurrences(an, c + n) + self.fv_occurrences(de, c + n)
                sub += self.fv_occurrences(f[1], c + n)
            elif ct == "Unifier":
                if not self.holes_neutral:
                    raise InternalError("reference fv is defined on hole-free terms")
                sub = []
            elif ARITY[ct] == 0:
                sub = []
            else:
                sub = []
                for x in f:
                    sub += self.fv_occurrences(x, c)
            out += [(z_and(g, g2), e) for g2, e in sub]
        self.memo[key] = out
        self.keep.append((t, c))
        return out

    # -----------------------------------------------------------------------------------------
    # textbook De Bruijn substitution: t[x := shift(u, s)] with indices above x lowered by one;
    # under a binder x and s grow by one.
    def subst(self, t, x, u, s):
        key = ("subst", id(t), _k(x), id(u), _k(s))
        hit = self.memo.get(key)
        if hit is not None:
            return hit
        ex = self.ex
        alts = []
        sr = T.source_range_of(t)
        for g, ct, adt in self.views(t):
            f = adt.fields
            if ct == "Variable":
                idx = f[1]
                if self.concretize is not None:
                    e = z_eq(idx, x)
                    if (e if isinstance(e, bool) else ex.branch(e)):
                        _, r = self.shift(u, 0, s)
                    else:
                        gt = idx > x
                        r = T.var(f[0], idx - 1 if (gt if isinstance(gt, bool) else ex.branch(gt)) else idx, sr)
                else:
                    _, ushift = self.shift(u, 0, s)
                    keep = T.var(f[0], z_ite(idx > x, idx - 1, idx), sr)
                    r = merge([(z_eq(idx, x), ushift), (z_not(z_eq(idx, x)), keep)])
            elif ct in ("Lambda", "Pi"):
                r = T.mk(ct, [f[0], f[1], self.subst(f[2], x, u, s), self.subst(f[3], x + 1, u, s + 1)], sr)
            elif ct.startswith("Let"):
                n = len(f[0])
                ds = [(nm, self.subst(an, x + n, u, s + n), self.subst(de, x + n, u, s + n)) for (nm, an, de) in f[0]]
                r = T.let(ds, self.subst(f[1], x + n, u, s + n), sr)
            elif ct == "Unifier":
                raise RefUnknown("substitution into an unresolved hole")
            elif ARITY[ct] == 0:
                r = t
            else:
                r = T.mk(ct, [self.subst(k, x, u, s) for k in f], sr)
            alts.append((g, r))
        res = merge(alts)
        self.memo[key] = res
        self.keep.append((t, x, u, s))
        return res


# ---------------------------------------------------------------------------------------------
# call-by-value small-step reference (C02)
VALUE_CTORS = ("Type", "Lambda", "Pi", "Integer", "IntegerLiteral", "Boolean", "True", "False")


def _trunc_div(a, b):
    from .methods import trunc_div
    return trunc_div(a, b)


class StepRef(Refs):
    """One-step call-by-value reduction on hole-free terms.  `step(t)` returns (steps, t') where
    `steps` is the condition under which t reduces and t' the reduct (meaningful under `steps`)."""

    def is_value(self, t):
        return z_or(*[g for g, ct, _ in self.views(t) if ct in VALUE_CTORS])

    def lit_of(self, t):
        """(is_literal formula, literal value expr or None)"""
        alts = [(g, adt.fields[0].v) for g, ct, adt in self.views(t) if ct == "IntegerLiteral"]
        if not alts:
            return False, None
        isl = z_or(*[g for g, _ in alts])
        v = alts[-1][1]
        for g, x in reversed(alts[:-1]):
            v = z_ite(g, x, v)
        return isl, v

    def step(self, t):
        key = ("step", id(t))
        hit = self.memo.get(key)
        if hit is not None:
            return hit
        ex = self.ex
        outs = []   # (guard, reduct)
        for g, ct, adt in self.views(t):
            f = adt.fields
            if ct in VALUE_CTORS or ct == "Variable":
                continue
            if ct == "Unifier":
                raise InternalError("reference step is defined on hole-free terms")
            if ct == "Application":
                fn, arg = f
                sf, fn2 = self.step(fn)
                if fn2 is not None:
                    outs.append((z_and(g, sf), T.mk(ct, [fn2, arg])))
                if sf is True:
                    continue
                vf = self.is_value(fn)
                if vf is False:
                    continue
                sa, arg2 = self.step(arg)
                va = self.is_value(arg)
                if arg2 is not None:
                    outs.append((z_and(g, z_not(sf), vf, sa), T.mk(ct, [fn, arg2])))
                for g2, c2, a2 in self.views(fn):
                    if c2 == "Lambda":
                        body = a2.fields[3]
                        gb = z_and(g, g2, z_not(sa), va)
                        if gb is not False:
                            outs.append((gb, self.subst(body, 0, arg, 0)))
            elif ct.startswith("Let"):
                defs, body = f
                n = len(defs)
                if n == 0:
                    outs.append((g, body))
                    continue
                x, ann, d = defs[0]
                sd, d2 = self.step(d)
                if d2 is not None:
                    outs.append((z_and(g, sd), T.let([(x, ann, d2)] + [tuple(r) for r in defs[1:]], body)))
                vd = self.is_value(d)
                if z_and(g, z_not(sd), vd) is False:
                    continue
                idx = n - 1
                me = T.var(x, 0)
                _, ann_up = self.shift(ann, 0, 1)
                _, d_up = self.shift(d, 0, 1)
                wrapper = T.let([(x, self.subst(ann_up, idx + 1, me, 0), self.subst(d_up, idx + 1, me, 0))], me)
                unfolded = self.subst(d, idx, wrapper, 0)
                rest = [(xi, self.subst(ai, idx, unfolded, 0), self.subst(di, idx, unfolded, 0)) for (xi, ai, di) in defs[1:]]
                outs.append((z_and(g, z_not(sd), vd), T.let(rest, self.subst(body, idx, unfolded, 0))))
            elif ct == "Negation":
                (e,) = f
                se, e2 = self.step(e)
                if e2 is not None:
                    outs.append((z_and(g, se), T.mk(ct, [e2])))
                isl, lv = self.lit_of(e)
                if lv is not None:
                    outs.append((z_and(g, isl), T.lit(-lv)))
            elif ct == "If":
                c, a, b = f
                sc, c2 = self.step(c)
                if c2 is not None:
                    outs.append((z_and(g, sc), T.mk(ct, [c2, a, b])))
                for g2, cc, _ in self.views(c):
                    if cc == "True":
                        outs.append((z_and(g, g2), a))
                    elif cc == "False":
                        outs.append((z_and(g, g2), b))
            else:
                l, r = f
                sl, l2 = self.step(l)
                if l2 is not None:
                    outs.append((z_and(g, sl), T.mk(ct, [l2, r])))
                if sl is True:
                    continue
                vl = self.is_value(l)
                if vl is False:
                    continue
                sr_, r2 = self.step(r)
                if r2 is not None:
                    outs.append((z_and(g, z_not(sl), vl, sr_), T.mk(ct, [l, r2])))
                il, lv = self.lit_of(l)
                ir, rv = self.lit_of(r)
                if lv is not None and rv is not None:
                    both = z_and(g, il, ir)
                    if ct == "Sum":
                        outs.append((both, T.lit(lv + rv)))
                    elif ct == "Difference":
                        outs.append((both, T.lit(lv - rv)))
                    elif ct == "Product":
                        outs.append((both, T.lit(lv * rv)))
                    elif ct == "Quotient":
                        nz = z_not(z_eq(rv, 0))
                        if nz is not False:
                            outs.append((z_and(both, nz), T.lit(_trunc_div(lv, rv))))
                    else:
                        cond = {"LessThan": lv < rv, "LessThanOrEqualTo": lv <= rv, "EqualTo": z_eq(lv, rv),
                                "GreaterThan": lv > rv, "GreaterThanOrEqualTo": lv >= rv}[ct]
                        outs.append((z_and(both, cond), T.mk("True")))
                        outs.append((z_and(both, z_not(cond)), T.mk("False")))
        outs = [(g, r) for g, r in outs if g is not False]
        if not outs:
            res = (False, None)
        else:
            res = (z_or(*[g for g, _ in outs]), merge(outs))
        self.memo[key] = res
        self.keep.append(t)
        return res
