"""Client for tools/gram-replay: the compiled /repo code, rebuilt from the working tree on every run."""
import json
import os
import select
import subprocess
import time

from .loader import VERIF, REPO, cargo_env

REPLAY_DIR = os.path.join(VERIF, "tools", "gram-replay")


def build_replay(profile="dev"):
    env = cargo_env()
    env["GRAM_REPO"] = REPO
    args = ["cargo", "build", "--offline"]
    if profile == "release":
        args.append("--release")
    lock = os.path.join(REPLAY_DIR, "Cargo.lock")
    t0 = time.time()
    p = subprocess.run(args, cwd=REPLAY_DIR, env=env, stdout=subprocess.PIPE, stderr=subprocess.STDOUT)
    if p.returncode != 0:
        raise RuntimeError("gram-replay does not build against %s:\n%s" % (REPO, p.stdout.decode()[-4000:]))
    sub = "release" if profile == "release" else "debug"
    return os.path.join(REPLAY_DIR, "target", sub, "gram-replay"), time.time() - t0


class ReplayClient:
    def __init__(self, profile="dev", timeout=20.0):
        self.binary, self.build_s = build_replay(profile)
        self.timeout = timeout
        self.proc = None
        self.calls = 0
        self.crashes = 0

    def _start(self):
        env = dict(os.environ)
        env["NO_COLOR"] = "1"
        self.proc = subprocess.Popen([self.binary], stdin=subprocess.PIPE, stdout=subprocess.PIPE,
                                     stderr=subprocess.DEVNULL, env=env)

    def call(self, cmd, timeout=None):
        """Run one command.  Returns the JSON result; {'crash': ...} if the process died (stack
        overflow, abort) and {'timeout': True} if it did not answer in time."""
        if self.proc is None or self.proc.poll() is not None:
            self._start()
        self.calls += 1
        line = (json.dumps(cmd) + "\n").encode()
        try:
            self.proc.stdin.write(line)
            self.proc.stdin.flush()
        except BrokenPipeError:
            self._kill()
            return {"crash": "broken pipe"}
        deadline = time.time() + (timeout or self.timeout)
        buf = b""
        fd = self.proc.stdout.fileno()
        while True:
            left = deadline - time.time()
            if left <= 0:
                self._kill()
                return {"timeout": True}
            r, _, _ = select.select([fd], [], [], left)
            if not r:
                continue
            chunk = os.read(fd, 1 << 16)
            if not chunk:
                rc = self.proc.wait()
                self.proc = None
                self.crashes += 1
                return {"crash": "exit status %s" % rc}
            buf += chunk
            if buf.endswith(b"\n"):
                break
        return json.loads(buf.decode())

    def _kill(self):
        if self.proc is not None:
            try:
                self.proc.kill()
                self.proc.wait()
            except Exception:
                pass
            self.proc = None

    def close(self):
        if self.proc is not None:
            try:
                self.proc.stdin.close()
                self.proc.wait(timeout=2)
            except Exception:
                self._kill()
            self.proc = None
