"""Random concrete terms (JSON) for validating the encoder against the compiled code."""
from .inputs import ARITY, BINARY

LEAF = ["Type", "Integer", "Boolean", "True", "False", "Variable", "IntegerLiteral"]
INNER = ["Lambda", "Pi", "Application", "Let", "Negation", "If"] + BINARY


def random_term(rng, depth=3, max_index=4, holes=False, cells=None, names=("a", "b", "f", "x", "y")):
    def sr():
        if rng.random() < 0.3:
            return None
        s = rng.randint(0, 40)
        return [s, s + rng.randint(0, 9)]

    def go(d):
        if d <= 1 or rng.random() < 0.25:
            c = rng.choice(LEAF + (["Unifier"] if holes else []))
        else:
            c = rng.choice(INNER)
        j = {"v": c, "sr": sr()}
        if c == "Variable":
            j["name"] = rng.choice(names)
            j["index"] = rng.randint(0, max_index)
        elif c == "Unifier":
            cid = str(rng.randint(0, 2))
            j["cell"] = cid
            j["shift"] = rng.randint(0, 3)
            if cells is not None and cid not in cells:
                cells[cid] = None
                if rng.random() < 0.5:
                    cells[cid] = go(max(1, d - 1))
        elif c == "IntegerLiteral":
            j["value"] = str(rng.choice([0, 1, -1, 2, 7, 10 ** 20, -(10 ** 19), rng.randint(-100, 100)]))
        elif c in ("Lambda", "Pi"):
            j["name"] = rng.choice(names)
            j["implicit"] = rng.random() < 0.3
            j["kids"] = [go(d - 1), go(d - 1)]
        elif c == "Let":
            n = rng.randint(0, 3)
            j["defs"] = [{"name": rng.choice(names), "ann": go(d - 1), "def": go(d - 1)} for _ in range(n)]
            j["body"] = go(d - 1)
        else:
            j["kids"] = [go(d - 1) for _ in range(ARITY[c])]
        return j
    return go(depth)


def random_program(rng, depth=3, holes=True, groups=2, scope=0, names=("a", "b", "f", "x", "y")):
    """A random closed, parser-shaped term (JSON) and its table of hole cells."""
    cells = {}
    counter = [0]

    def sr():
        s = rng.randint(0, 40)
        return [s, s + rng.randint(1, 9)]

    def hole(shift):
        cid = "h%d" % counter[0]
        counter[0] += 1
        cells[cid] = None
        return {"v": "Unifier", "cell": cid, "shift": shift, "sr": None}

    def go(d, sc, no_let=False):
        leaf = ["Type", "Integer", "Boolean", "True", "False", "IntegerLiteral"] + (["Variable"] * 3 if sc > 0 else [])
        if holes:
            leaf.append("Unifier")
        inner = ["Lambda", "Pi", "Application", "Negation", "If"] + BINARY + ([] if no_let else ["Let"])
        if d <= 1 or rng.random() < 0.25:
            c = rng.choice(leaf)
        else:
            c = rng.choice(inner)
        j = {"v": c, "sr": sr()}
        if c == "Variable":
            j["name"] = rng.choice(names)
            j["index"] = rng.randint(0, sc - 1)
        elif c == "Unifier":
            return hole(0)
        elif c == "IntegerLiteral":
            j["value"] = str(rng.choice([0, 1, -1, 2, 7, 10 ** 20, rng.randint(-100, 100)]))
        elif c in ("Lambda", "Pi"):
            j["name"] = rng.choice(names)
            j["implicit"] = rng.random() < 0.15
            dom = hole(0) if (holes and c == "Lambda" and rng.random() < 0.3) else go(d - 1, sc)
            j["kids"] = [dom, go(d - 1, sc + 1)]
        elif c == "Let":
            n = rng.randint(1, groups)
            defs = []
            for i in range(n):
                ann = hole(n - i) if (holes and rng.random() < 0.5) else go(d - 1, sc + n)
                defs.append({"name": rng.choice(names), "ann": ann, "def": go(d - 1, sc + n)})
            j["defs"] = defs
            j["body"] = go(d - 1, sc + n, no_let=True)
        else:
            j["kids"] = [go(d - 1, sc) for _ in range(ARITY[c])]
        return j
    t = go(depth, scope)
    return t, cells
