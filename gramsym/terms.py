"""Helpers for `term::Term` values: construction, views over symbolic nodes, structural equality as
a formula, conversion to/from the JSON exchanged with gram-replay."""
import z3

from .values import (Adt, Struct, TupleV, VecV, Big, CellV, Str, Union, InternalError, some, none, is_sym,
                     z_and, z_or, z_eq, z_not)
from .inputs import InputTerm, ARITY, CODE, CTORS, real_ctor, let_n, LETS

E = "term::Variant"
TERM = "term::Term"


def mk(variant, fields=(), sr=None):
    return Struct(TERM, {"source_range": sr if sr is not None else none(), "variant": Adt(E, variant, list(fields))})


def var(name, idx, sr=None):
    return mk("Variable", [name, idx], sr)


def lit(v, sr=None):
    return mk("IntegerLiteral", [Big(v)], sr)


def let(defs, body, sr=None):
    return mk("Let", [VecV([TupleV(list(d)) for d in defs]), body], sr)


def unifier(cell, shift, sr=None):
    return mk("Unifier", [cell, shift], sr)


def is_term(v):
    return isinstance(v, InputTerm) or (isinstance(v, Struct) and v.name == TERM)


def views(ex, t):
    """[(guard, ctor, adt)]: the possible outermost shapes of a term value on the current path."""
    if isinstance(t, InputTerm):
        cur = ex.allowed(t)
        if len(cur) == 1:
            (c,) = cur
            return [(True, c, t.as_adt(c))]
        return [(t.tag == CODE[c], c, t.as_adt(c)) for c in sorted(cur, key=CTORS.index)]
    if isinstance(t, Struct) and t.name == TERM:
        v = t.fields["variant"]
        return variant_views(ex, v)
    if isinstance(t, Union):
        out = []
        for g, x in t.alts:
            for g2, c, a in views(ex, x):
                out.append((z_and(g, g2), c, a))
        return out
    raise InternalError("views of %r" % (t,))


def variant_views(ex, v):
    from .interp import IVar
    if isinstance(v, IVar):
        return views(ex, v.node)
    if isinstance(v, Adt):
        c = v.variant
        if c == "Let":
            c = "Let%d" % len(v.fields[0])
        return [(True, c, v)]
    if isinstance(v, Union):
        out = []
        for g, x in v.alts:
            for g2, c, a in variant_views(ex, x):
                out.append((z_and(g, g2), c, a))
        return out
    raise InternalError("variant views of %r" % (v,))


def source_range_of(t):
    if isinstance(t, InputTerm):
        return t.sr
    return t.fields["source_range"]


class EqOpts:
    def __init__(self, names=True, source_ranges=False, annotations=True, cell_eq=None):
        self.names = names
        self.source_ranges = source_ranges
        self.annotations = annotations
        self.cell_eq = cell_eq


DEFAULT_EQ = EqOpts()


def veq(a, b):
    """Equality of leaf values (names, scalars, options of ranges), unions allowed."""
    if a is b:
        return True
    if isinstance(a, Union):
        return z_or(*[z_and(g, veq(v, b)) for g, v in a.alts])
    if isinstance(b, Union):
        return z_or(*[z_and(g, veq(a, v)) for g, v in b.alts])
    if isinstance(a, Big):
        a = a.v
    if isinstance(b, Big):
        b = b.v
    if isinstance(a, str) or isinstance(b, str):
        return a == b
    if isinstance(a, Adt) and isinstance(b, Adt):
        if a.variant != b.variant or len(a.fields) != len(b.fields):
            return False
        return z_and(*[veq(x, y) for x, y in zip(a.fields, b.fields)])
    if isinstance(a, Struct) and isinstance(b, Struct):
        return z_and(*[veq(a.fields[k], b.fields[k]) for k in a.fields])
    if isinstance(a, CellV) or isinstance(b, CellV):
        return a is b
    return z_eq(a, b)


def opt_eq(a, b):
    """Equality of Option<SourceRange> values as a formula."""
    if isinstance(a, Union) or isinstance(b, Union):
        return veq(a, b)
    if a.variant != b.variant:
        return False
    if a.variant == "None":
        return True
    x, y = a.fields[0], b.fields[0]
    return z_and(z_eq(x.fields["start"], y.fields["start"]), z_eq(x.fields["end"], y.fields["end"]))


def term_eq(ex, a, b, opts=DEFAULT_EQ):
    """Structural equality of two term values as a z3 formula (or Python bool)."""
    if a is b:
        return True
    cache = getattr(ex, "eq_cache", None)
    ckey = (id(a), id(b), id(opts))
    if cache is not None:
        hit = cache.get(ckey)
        if hit is not None and hit[0] is a and hit[1] is b:
            return hit[2]
    r = _term_eq(ex, a, b, opts)
    if cache is not None:
        cache[ckey] = (a, b, r)
    return r


def _term_eq(ex, a, b, opts):
    va = views(ex, a)
    vb = views(ex, b)
    disj = []
    for ga, ca, xa in va:
        for gb, cb, xb in vb:
            if ca != cb:
                continue
            f = fields_eq(ex, ca, xa, xb, opts)
            if f is False:
                continue
            disj.append(z_and(ga, gb, f))
    r = z_or(*disj)
    if opts.source_ranges:
        r = z_and(r, opt_eq(source_range_of(a), source_range_of(b)))
    return r


def scalar_eq(x, y):
    return veq(x, y)


def name_eq(x, y):
    return veq(x, y)


def fields_eq(ex, c, xa, xb, opts):
    fa, fb = xa.fields, xb.fields
    if c == "Variable":
        return z_and(name_eq(fa[0], fb[0]) if opts.names else True, scalar_eq(fa[1], fb[1]))
    if c == "Unifier":
        same = veq(fa[0], fb[0]) if opts.cell_eq is None else opts.cell_eq(fa[0], fb[0])
        if getattr(opts, "hole_shifts", True) is False:
            return same
        return z_and(same, scalar_eq(fa[1], fb[1]))
    if c in ("Lambda", "Pi"):
        return z_and(name_eq(fa[0], fb[0]) if opts.names else True, scalar_eq(fa[1], fb[1]),
                     term_eq(ex, fa[2], fb[2], opts) if (opts.annotations or c == "Pi") else True,
                     term_eq(ex, fa[3], fb[3], opts))
    if c == "IntegerLiteral":
        return scalar_eq(fa[0], fb[0])
    if c.startswith("Let"):
        da, db = fa[0], fb[0]
        if len(da) != len(db):
            return False
        parts = []
        for (na, aa, xa2), (nb, ab, xb2) in zip(da, db):
            if opts.names:
                parts.append(name_eq(na, nb))
            if opts.annotations:
                parts.append(term_eq(ex, aa, ab, opts))
            parts.append(term_eq(ex, xa2, xb2, opts))
        parts.append(term_eq(ex, fa[1], fb[1], opts))
        return z_and(*parts)
    return z_and(*[term_eq(ex, x, y, opts) for x, y in zip(fa, fb)])


# ---------------------------------------------------------------------------------------------
# concretisation (model -> JSON) and JSON -> value

def mval(model, x):
    if isinstance(x, bool):
        return x
    if isinstance(x, int):
        return x
    if isinstance(x, Big):
        return mval(model, x.v)
    v = model.eval(x, model_completion=True)
    if z3.is_int_value(v):
        return v.as_long()
    if z3.is_true(v):
        return True
    if z3.is_false(v):
        return False
    v = z3.simplify(v)
    if z3.is_int_value(v):
        return v.as_long()
    if z3.is_true(v):
        return True
    if z3.is_false(v):
        return False
    raise InternalError("cannot evaluate %s in model" % x)


class Concretizer:
    """Turns term values into JSON under a model; numbers cells in traversal order."""

    def __init__(self, ex, model, allowed=None, initial_cells=False):
        self.ex = ex
        self.model = model
        self.initial_cells = initial_cells
        self.cells = {}
        self.cell_json = {}
        self.allowed = allowed if allowed is not None else (dict(ex.f.allowed) if ex.frames else {})

    def sr(self, o):
        if isinstance(o, Union):
            for g, v in o.alts:
                if mval(self.model, g):
                    return self.sr(v)
            return None
        if o.variant == "None":
            return None
        s = o.fields[0]
        return [mval(self.model, s.fields["start"]), mval(self.model, s.fields["end"])]

    def cell_id(self, cell):
        if cell not in self.cells:
            cid = len(self.cells)
            self.cells[cell] = cid
            if self.initial_cells and cell.persistent:
                content = cell.init
            else:
                content = self.ex.cell_get(cell) if self.ex.frames else (cell.init if cell.persistent else cell.content)
            self.cell_json[cid] = None
            content = self.pick(content)
            if isinstance(content, Adt) and content.variant == "Some":
                self.cell_json[cid] = self.term(content.fields[0])
        return self.cells[cell]

    def pick(self, v):
        while isinstance(v, Union):
            nxt = None
            for g, x in v.alts:
                if mval(self.model, g):
                    nxt = x
                    break
            if nxt is None:
                raise InternalError("no union alternative holds in the model")
            v = nxt
        return v

    def ctor(self, node):
        cur = self.allowed.get(node.uid, node.allowed0)
        code = mval(self.model, node.tag)
        c = CTORS[code] if 0 <= code < len(CTORS) else None
        if c not in cur:
            c = min(sorted(cur, key=CTORS.index), key=lambda k: ARITY[k])
        return c

    def term(self, t):
        from .interp import IVar
        t = self.pick(t)
        if isinstance(t, InputTerm):
            c = self.ctor(t)
            return self.variant(t.as_adt(c), self.sr(t.sr))
        if isinstance(t, Struct) and t.name == TERM:
            v = self.pick(t.fields["variant"])
            if isinstance(v, IVar):
                c = self.ctor(v.node)
                v = v.node.as_adt(c)
            return self.variant(v, self.sr(t.fields["source_range"]))
        raise InternalError("concretize %r" % (t,))

    def variant(self, a, sr):
        c = a.variant
        f = a.fields
        j = {"v": c, "sr": sr}
        if c == "Variable":
            j["name"] = f[0]
            j["index"] = mval(self.model, f[1])
        elif c == "Unifier":
            j["cell"] = self.cell_id(self.pick(f[0]))
            j["shift"] = mval(self.model, f[1])
        elif c in ("Lambda", "Pi"):
            j["name"] = f[0]
            j["implicit"] = mval(self.model, f[1])
            j["kids"] = [self.term(f[2]), self.term(f[3])]
        elif c == "IntegerLiteral":
            j["value"] = str(mval(self.model, f[0]))
        elif c == "Let":
            defs = self.pick(f[0])
            j["defs"] = [{"name": d[0], "ann": self.term(d[1]), "def": self.term(d[2])} for d in defs]
            j["body"] = self.term(f[1])
        elif f:
            j["kids"] = [self.term(x) for x in f]
        return j

    def cells_table(self):
        return {str(k): v for k, v in self.cell_json.items()}


def from_json(j, cells=None, cell_objs=None):
    """JSON -> concrete term value.  `cells`: table id -> term json|None."""
    if cell_objs is None:
        cell_objs = {}
    sr = j.get("sr")
    srv = none() if sr is None else some(Struct("error::SourceRange", {"start": sr[0], "end": sr[1]}))
    c = j["v"]
    if c == "Variable":
        return mk(c, [j["name"], j["index"]], srv)
    if c == "Unifier":
        cid = str(j["cell"])
        if cid not in cell_objs:
            cell = CellV("j" + cid, content=none())
            cell_objs[cid] = cell
            cj = (cells or {}).get(cid)
            if cj is not None:
                cell.content = some(from_json(cj, cells, cell_objs))
        return mk(c, [cell_objs[cid], j["shift"]], srv)
    if c in ("Lambda", "Pi"):
        return mk(c, [j["name"], j["implicit"], from_json(j["kids"][0], cells, cell_objs),
                      from_json(j["kids"][1], cells, cell_objs)], srv)
    if c == "IntegerLiteral":
        return mk(c, [Big(int(j["value"]))], srv)
    if c == "Let":
        return mk(c, [VecV([TupleV([d["name"], from_json(d["ann"], cells, cell_objs), from_json(d["def"], cells, cell_objs)])
                            for d in j["defs"]]), from_json(j["body"], cells, cell_objs)], srv)
    return mk(c, [from_json(k, cells, cell_objs) for k in j.get("kids", [])], srv)


def canon(j, drop_sr=False, drop_names=False):
    """Canonical form of term JSON for comparison."""
    if isinstance(j, dict):
        out = {}
        for k, v in j.items():
            if drop_sr and k == "sr":
                continue
            if drop_names and k == "name":
                continue
            out[k] = canon(v, drop_sr, drop_names)
        return out
    if isinstance(j, list):
        return [canon(x, drop_sr, drop_names) for x in j]
    return j


def show(j, cells=None):
    """Compact s-expression rendering of term JSON (for logs and evidence samples)."""
    c = j["v"]
    if c == "Variable":
        return "%s@%d" % (j["name"], j["index"])
    if c == "Unifier":
        inner = (cells or {}).get(str(j["cell"]))
        return "?%s^%d%s" % (j["cell"], j["shift"], "=" + show(inner, cells) if inner else "")
    if c in ("Lambda", "Pi"):
        return "(%s%s %s %s %s)" % (c, "!" if j["implicit"] else "", j["name"], show(j["kids"][0], cells), show(j["kids"][1], cells))
    if c == "IntegerLiteral":
        return j["value"]
    if c == "Let":
        return "(Let [%s] %s)" % (" ".join("%s:%s=%s" % (d["name"], show(d["ann"], cells), show(d["def"], cells)) for d in j["defs"]),
                                  show(j["body"], cells))
    if not j.get("kids"):
        return c
    return "(%s %s)" % (c, " ".join(show(k, cells) for k in j["kids"]))


# ---------------------------------------------------------------------------------------------
# Slot form: a merged term as a tree of positions, each with a symbolic tag and scalar slots.
# Equality of two terms in slot form is a *conjunction* over positions, so it can be decided by many
# small queries instead of one query with deeply nested disjunctions.

class Slots:
    __slots__ = ("tag", "idx", "lit", "imp", "name", "names", "sr_some", "sr_start", "sr_end", "kids", "ctors")


_NAME_IDS = {}


def name_id(n):
    if isinstance(n, Union):
        alts = [(g, name_id(v)) for g, v in n.alts]
        r = alts[-1][1]
        for g, v in reversed(alts[:-1]):
            r = z_ite_int(g, v, r)
        return r
    if n not in _NAME_IDS:
        _NAME_IDS[n] = len(_NAME_IDS) + 1
    return _NAME_IDS[n]


def z_ite_int(g, a, b):
    if g is True:
        return a
    if g is False:
        return b
    if isinstance(a, int) and isinstance(b, int) and a == b:
        return a
    if is_sym(a) and is_sym(b) and z3.eq(a, b):
        return a
    return z3.If(g, a if is_sym(a) else z3.IntVal(a), b if is_sym(b) else z3.IntVal(b))


def z_ite_bool(g, a, b):
    if g is True:
        return a
    if g is False:
        return b
    if isinstance(a, bool) and isinstance(b, bool) and a == b:
        return a
    return z3.If(g, a if is_sym(a) else z3.BoolVal(a), b if is_sym(b) else z3.BoolVal(b))


def _chain(alts, ite, default):
    if not alts:
        return default
    r = alts[-1][1]
    for g, v in reversed(alts[:-1]):
        r = ite(g, v, r)
    return r


def slotify(ex, t, memo=None):
    from .merge import merge
    if memo is None:
        memo = {}
    key = id(t)
    hit = memo.get(key)
    if hit is not None and hit[0] is t:
        return hit[1]
    vs = views(ex, t)
    s = Slots()
    s.ctors = [c for _, c, _ in vs]
    s.tag = _chain([(g, CODE[c]) for g, c, _ in vs], z_ite_int, -1)
    idxs, lits, imps, names = [], [], [], []
    kid_alts = {}
    for g, c, a in vs:
        f = a.fields
        if c in ("Variable", "Unifier"):
            idxs.append((g, f[1]))
            if c == "Variable":
                names.append((g, [name_id(f[0])]))
        elif c == "IntegerLiteral":
            lits.append((g, f[0].v if isinstance(f[0], Big) else f[0]))
        elif c in ("Lambda", "Pi"):
            imps.append((g, f[1]))
            names.append((g, [name_id(f[0])]))
            kid_alts.setdefault(0, []).append((g, f[2]))
            kid_alts.setdefault(1, []).append((g, f[3]))
        elif c.startswith("Let"):
            defs = f[0]
            names.append((g, [name_id(d[0]) for d in defs]))
            for i, d in enumerate(defs):
                kid_alts.setdefault(2 * i, []).append((g, d[1]))
                kid_alts.setdefault(2 * i + 1, []).append((g, d[2]))
            kid_alts.setdefault(2 * len(defs), []).append((g, f[1]))
        else:
            for i, x in enumerate(f):
                kid_alts.setdefault(i, []).append((g, x))
    s.idx = _chain(idxs, z_ite_int, 0)
    s.lit = _chain(lits, z_ite_int, 0)
    s.imp = _chain(imps, z_ite_bool, False)
    nmax = max([len(n) for _, n in names] + [0])
    s.names = [_chain([(g, n[i]) for g, n in names if len(n) > i], z_ite_int, 0) for i in range(nmax)]
    sr = source_range_of(t)
    sr_alts = sr.alts if isinstance(sr, Union) else [(True, sr)]
    s.sr_some = _chain([(g, o.variant == "Some") for g, o in sr_alts], z_ite_bool, False)
    somes = [(g, o.fields[0]) for g, o in sr_alts if o.variant == "Some"]
    s.sr_start = _chain([(g, o.fields["start"]) for g, o in somes], z_ite_int, 0)
    s.sr_end = _chain([(g, o.fields["end"]) for g, o in somes], z_ite_int, 0)
    s.kids = {}
    for i, alts in kid_alts.items():
        s.kids[i] = slotify(ex, merge(alts) if len(alts) > 1 else alts[0][1], memo)
    memo[key] = (t, s)
    return s


def _tag_in(tag, ctors):
    codes = sorted(CODE[c] for c in ctors)
    if isinstance(tag, int):
        return tag in codes
    return z_or(*[tag == c for c in codes])


NAMED = [c for c in CTORS if c in ("Variable", "Lambda", "Pi") or c.startswith("Let")]


def slot_eq(ex, a, b, opts=DEFAULT_EQ):
    """[(context, formula, where)]: a == b iff every formula holds under its context."""
    memo = {}
    sa, sb = slotify(ex, a, memo), slotify(ex, b, memo)
    out = []

    def rec(x, y, ctx, where):
        if x is y:
            return
        out.append((ctx, z_eq(x.tag, y.tag), where + ".tag"))
        both = set(x.ctors) & set(y.ctors)
        if both & {"Variable", "Unifier"}:
            out.append((z_and(ctx, _tag_in(x.tag, ["Variable", "Unifier"])), z_eq(x.idx, y.idx), where + ".index"))
        if "IntegerLiteral" in both:
            out.append((z_and(ctx, _tag_in(x.tag, ["IntegerLiteral"])), z_eq(x.lit, y.lit), where + ".literal"))
        if both & {"Lambda", "Pi"}:
            out.append((z_and(ctx, _tag_in(x.tag, ["Lambda", "Pi"])), z_eq(x.imp, y.imp), where + ".implicit"))
        if opts.names:
            for i in range(min(len(x.names), len(y.names))):
                who = [c for c in both if c in ("Variable", "Lambda", "Pi") and i == 0 or (c.startswith("Let") and let_n(c) > i)]
                if who:
                    out.append((z_and(ctx, _tag_in(x.tag, who)), z_eq(x.names[i], y.names[i]), where + ".name%d" % i))
        if opts.source_ranges:
            out.append((ctx, z_eq(x.sr_some, y.sr_some), where + ".sr"))
            out.append((z_and(ctx, x.sr_some), z_and(z_eq(x.sr_start, y.sr_start), z_eq(x.sr_end, y.sr_end)), where + ".sr-range"))
        for i in sorted(set(x.kids) & set(y.kids)):
            who = [c for c in both if ARITY[c] > i]
            if not who:
                continue
            if not opts.annotations:
                who = [c for c in who if not ((c == "Lambda" and i == 0) or (c.startswith("Let") and i % 2 == 0 and i < 2 * let_n(c)))]
                if not who:
                    continue
            rec(x.kids[i], y.kids[i], z_and(ctx, _tag_in(x.tag, who)), "%s.%d" % (where, i))

    rec(sa, sb, True, "")
    return out


def inline_cells(j, cells, order=None):
    """Term JSON with hole cells renumbered in traversal order and their contents inlined, so that
    results of the executor and of gram-replay can be compared."""
    if order is None:
        order = {}

    def go(x):
        if isinstance(x, list):
            return [go(y) for y in x]
        if not isinstance(x, dict):
            return x
        if x.get("v") == "Unifier":
            cid = str(x["cell"])
            first = cid not in order
            if first:
                order[cid] = len(order)
            out = {"v": "Unifier", "cell": order[cid], "shift": x["shift"], "sr": x.get("sr")}
            if first:
                c = cells.get(cid)
                out["content"] = go(c) if c is not None else None
            return out
        return {k: go(v) for k, v in sorted(x.items())}
    return go(j)
