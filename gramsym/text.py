"""Symbolic source text: a string of N characters whose code points are z3 integers.

Each character ranges over all of ASCII plus a fixed set R of non-ASCII representatives (multi-byte
letters of 2, 3 and 4 bytes, a non-ASCII decimal digit, multi-byte whitespace, combining marks, an
illegal symbol, an emoji).  Byte offsets are symbolic sums of UTF-8 widths.  The values of the char
predicates on R and the grapheme-break behaviour are *read from the compiled std /
unicode-segmentation* through gram-replay when the model is built, and the grapheme rule used by the
model is validated against the compiled code on all class sequences up to length 4."""
import z3

from .values import (Adt, Struct, TupleV, VecV, Big, Char, Str, Union, UNIT, InternalError, some, none, ok, err, is_sym,
                     z_and, z_or, z_not, z_ite, z_eq)

R_CODEPOINTS = [0xE9, 0x3BB, 0x4E2D, 0x1D465, 0x663, 0xA0, 0x2028, 0x301, 0x200D, 0xA7, 0x1F44D, 0x85]
# grapheme-cluster-break classes used by the model (validated against unicode-segmentation)
GCB = {0x301: "Extend", 0x200D: "ZWJ", 0x1F44D: "ExtPict", 0x2028: "Control", 0x85: "Control"}


def utf8_width(cp):
    if isinstance(cp, int):
        return 1 if cp < 0x80 else 2 if cp < 0x800 else 3 if cp < 0x10000 else 4
    return z3.If(cp < 0x80, 1, z3.If(cp < 0x800, 2, z3.If(cp < 0x10000, 3, 4)))


class SymText:
    """&str value: characters [lo, hi) of a text model's character array."""

    def __init__(self, model, lo, hi):
        self.model = model
        self.lo = lo
        self.hi = hi

    def __repr__(self):
        return "<text %d..%d>" % (self.lo, self.hi)

    def concrete(self, m):
        from .terms import mval
        return "".join(chr(mval(m, self.model.cps[i]) if not isinstance(self.model.cps[i], int) else self.model.cps[i]) for i in range(self.lo, self.hi))

    def sym_eq(self, it, other):
        return self.model.str_eq(it, self, other)


class CharIter:
    """source.char_indices().peekable()"""

    def __init__(self, text):
        self.text = text
        self.k = text.lo

    def _item(self, k):
        tm = self.text.model
        return some(TupleV([tm.offs[k], Char(tm.cps[k])]))

    def rs_peekable(self, it):
        return self

    def rs_next(self, it):
        if self.k >= self.text.hi:
            return none()
        r = self._item(self.k)
        self.k += 1
        return r

    def rs_peek(self, it):
        if self.k >= self.text.hi:
            return none()
        return self._item(self.k)


class Cursor:
    def __init__(self, off, total):
        self.off = off
        self.total = total


class TextModel:
    def __init__(self, replay, n=None, cps=None, prefix="c"):
        """n symbolic characters, or concrete code points `cps`."""
        self.replay = replay
        if cps is not None:
            self.cps = list(cps)
        else:
            self.cps = [z3.Int("%s%d" % (prefix, i)) for i in range(n)]
        self.n = len(self.cps)
        self.offs = [0]
        for cp in self.cps:
            self.offs.append(self.offs[-1] + utf8_width(cp))
        if any(is_sym(o) for o in self.offs):
            self.offs = [o if isinstance(o, int) else z3.simplify(o) for o in self.offs]
        self.off_index = {self._key(o): i for i, o in enumerate(self.offs)}
        self.info = char_table(replay)
        self.text = SymText(self, 0, self.n)

    def domain(self):
        """Every character is ASCII or one of the representatives."""
        cs = []
        for cp in self.cps:
            if is_sym(cp):
                cs.append(z3.Or(z3.And(cp >= 0, cp < 128), *[cp == r for r in R_CODEPOINTS]))
        return cs

    @staticmethod
    def _key(o):
        return ("i", o) if isinstance(o, int) else ("z", o.get_id())

    def index_of(self, it, off):
        """Character index of a byte offset (forks if the offset is not one of the canonical sums)."""
        off = it.deref(off)
        if isinstance(off, int) and all(isinstance(o, int) for o in self.offs):
            if off in self.offs:
                return self.offs.index(off)
            it.panic("byte index %d is not a char boundary" % off, None, None, "char-boundary")
        k = self.off_index.get(self._key(off))
        if k is None and is_sym(off):
            k = self.off_index.get(self._key(z3.simplify(off)))
        if k is not None:
            return k
        guards = [z_eq(off, o) for o in self.offs]
        rest = z_not(z_or(*guards))
        i = it.ex.decide([g if not isinstance(g, bool) else (z3.BoolVal(g)) for g in guards] + [rest if not isinstance(rest, bool) else z3.BoolVal(rest)])
        if i == len(self.offs):
            it.panic("byte index is out of range or not a char boundary", None, None, "char-boundary")
        return i

    # ------------------------------------------------------------------------------------
    # hooks called by the interpreter
    def str_len(self, it, s):
        s = it.deref(s)
        if isinstance(s, SymText):
            a, b = self.offs[s.lo], self.offs[s.hi]
            return b - a if not (isinstance(a, int) and a == 0) else b
        if isinstance(s, str):
            return len(s.encode())
        if isinstance(s, Str) and s.s is not None:
            return len(s.s.encode())
        raise InternalError("len of %r" % (s,))

    def str_is_empty(self, it, s):
        s = it.deref(s)
        if isinstance(s, SymText):
            return s.lo == s.hi
        if isinstance(s, str):
            return len(s) == 0
        raise InternalError("is_empty of %r" % (s,))

    def str_eq(self, it, a, b):
        if isinstance(a, SymText) and isinstance(b, SymText):
            if a.model is b.model and a.lo == b.lo and a.hi == b.hi:
                return True
            if a.hi - a.lo != b.hi - b.lo:
                # different numbers of characters can still be equal only if ... never: equal strings have equal char counts
                return False
            return z_and(*[z_eq(a.model.cps[a.lo + t], b.model.cps[b.lo + t]) for t in range(a.hi - a.lo)])
        if isinstance(b, SymText):
            a, b = b, a
        if isinstance(b, Str):
            b = b.s
        if isinstance(a, SymText) and isinstance(b, str):
            if a.hi - a.lo != len(b):
                return False
            return z_and(*[z_eq(self.cps[a.lo + t], ord(ch)) for t, ch in enumerate(b)])
        if isinstance(a, str) and isinstance(b, str):
            return a == b
        raise InternalError("string comparison %r == %r" % (a, b))

    def slice(self, it, base, rng, e, mod):
        base = it.deref(base)
        if not isinstance(base, SymText):
            raise InternalError("slice of %s" % type(base).__name__)
        # offsets are relative to the start of `base`
        origin = self.offs[base.lo]
        shift = (lambda o: o) if (isinstance(origin, int) and origin == 0) else (lambda o: it.deref(o) + origin)
        lo = self.index_of(it, shift(rng.lo)) if rng.lo is not None else base.lo
        hi = self.index_of(it, shift(rng.hi)) if rng.hi is not None else base.hi
        if rng.inclusive:
            raise InternalError("inclusive slice")
        if lo > hi or lo < base.lo or hi > base.hi:
            it.panic("slice index out of range", e, mod, "slice")
        return SymText(self, lo, hi)

    def char_pred(self, it, name, c):
        if not isinstance(c, Char):
            raise InternalError("char predicate on %r" % (c,))
        cp = c.v
        key = {"is_alphabetic": "alphabetic", "is_alphanumeric": "alphanumeric", "is_whitespace": "whitespace",
               "is_ascii_digit": "ascii_digit"}[name]
        if isinstance(cp, int):
            if cp < 128:
                return ascii_pred(key, cp)
            return self.info[cp][key]
        asc = {"alphabetic": z3.Or(z3.And(cp >= 65, cp <= 90), z3.And(cp >= 97, cp <= 122)),
               "alphanumeric": z3.Or(z3.And(cp >= 65, cp <= 90), z3.And(cp >= 97, cp <= 122), z3.And(cp >= 48, cp <= 57)),
               "whitespace": z3.Or(z3.And(cp >= 9, cp <= 13), cp == 32),
               "ascii_digit": z3.And(cp >= 48, cp <= 57)}[key]
        non = [cp == r for r in R_CODEPOINTS if self.info[r][key]]
        return z3.Or(z3.And(cp < 128, asc), *non)

    def method(self, it, name, recv, args, e, mod):
        if name == "char_indices":
            return CharIter(recv)
        if name == "as_bytes":
            return recv
        if name == "next_boundary":
            return self.next_boundary(it, recv)
        if name == "split":
            return self.split(it, recv, args[0])
        if name == "trim_end":
            return self.trim_end(it, recv)
        if name == "find":
            return self.find(it, recv, args[0])
        if name == "repeat":
            r = it.deref(recv)
            return Str(None, ("repeat", r if isinstance(r, str) else getattr(r, "s", r), it.deref(args[0])))
        if name == "chars":
            from .interp import IterV
            return IterV(Char(self.cps[k]) for k in range(recv.lo, recv.hi))
        if name == "parse":
            return self.parse_int(it, recv, (e.get("turbofish") or "").replace(" ", "").replace("::", "").strip("<>"))
        raise InternalError("text method %s" % name)

    INT_MAX = {"i8": 2 ** 7 - 1, "u8": 2 ** 8 - 1, "i16": 2 ** 15 - 1, "u16": 2 ** 16 - 1, "i32": 2 ** 31 - 1, "u32": 2 ** 32 - 1,
               "i64": 2 ** 63 - 1, "u64": 2 ** 64 - 1, "isize": 2 ** 63 - 1, "usize": 2 ** 64 - 1, "i128": 2 ** 127 - 1, "u128": 2 ** 128 - 1}

    def parse_int(self, it, s, ty):
        """str::parse::<machine integer>() of a text all of whose characters are decimal digits:
        Err on the empty string, on a non-digit (signs are not modelled: inconclusive), and on
        overflow of the target type."""
        from .values import Opaque, ISz
        if ty not in self.INT_MAX:
            raise InternalError("str::parse::<%s>" % ty)
        if not isinstance(s, SymText):
            raise InternalError("parse of %r" % (s,))
        if s.lo == s.hi:
            return err(Opaque("ParseIntError(Empty)"))
        v = 0
        for k in range(s.lo, s.hi):
            cp = self.cps[k]
            isd = z_and(cp >= 48, cp <= 57) if is_sym(cp) else (48 <= cp <= 57)
            if not it.truth(isd):
                sign = z_or(z_eq(cp, 43), z_eq(cp, 45))
                if k == s.lo and it.truth(sign):
                    raise InternalError("str::parse of a signed literal is not modelled")
                return err(Opaque("ParseIntError(InvalidDigit)"))
            v = v * 10 + (cp - 48)
        fits = (v <= self.INT_MAX[ty])
        if not it.truth(fits):
            return err(Opaque("ParseIntError(PosOverflow)"))
        return ok(ISz(v) if ty.startswith("i") else v)

    def is_char(self, it, k, ch):
        e = z_eq(self.cps[k], ord(ch))
        return e if isinstance(e, bool) else it.ex.branch(e)

    def split(self, it, s, sep):
        """str::split(char): the pieces between occurrences of the separator (forks per character)."""
        from .interp import IterV
        if not isinstance(sep, Char) or not isinstance(sep.v, int):
            raise InternalError("split by a non-literal separator")
        pieces = []
        start = s.lo
        for k in range(s.lo, s.hi):
            if self.is_char(it, k, chr(sep.v)):
                pieces.append(SymText(self, start, k))
                start = k + 1
        pieces.append(SymText(self, start, s.hi))
        return IterV(pieces)

    def trim_end(self, it, s):
        hi = s.hi
        while hi > s.lo and it.truth(self.char_pred(it, "is_whitespace", Char(self.cps[hi - 1]))):
            hi -= 1
        return SymText(self, s.lo, hi)

    def find(self, it, s, pred):
        """str::find(closure): byte offset (relative to s) of the first character satisfying pred."""
        for k in range(s.lo, s.hi):
            if it.truth(it.call_value(pred, [Char(self.cps[k])])):
                a, b = self.offs[k], self.offs[s.lo]
                return some(a - b if not (isinstance(b, int) and b == 0) else a)
        return none()

    def function(self, it, name, args, e, mod):
        if name == "GraphemeCursor::new":
            return Cursor(args[0], args[1])
        if name == "BigInt::from":
            from .values import ISz
            v = it.resolve(it.deref(args[0]))
            if isinstance(v, Big):
                return v
            return Big(v.v if isinstance(v, ISz) else v)
        if name == "BigInt::parse_bytes":
            s = it.deref(args[0])
            if not isinstance(s, SymText):
                raise InternalError("parse_bytes of %r" % (s,))
            if s.lo == s.hi:
                return none()
            v = 0
            for k in range(s.lo, s.hi):
                d = self.cps[k] - 48
                # a non-digit makes parse_bytes return None
                isd = z_and(self.cps[k] >= 48, self.cps[k] <= 57) if is_sym(self.cps[k]) else (48 <= self.cps[k] <= 57)
                if not it.truth(isd):
                    return none()
                v = v * 10 + d
            return some(Big(v))
        raise InternalError("text function %s" % name)

    def int_to_string(self, it, v):
        raise InternalError("to_string of a symbolic integer")

    # ------------------------------------------------------------------------------------
    def gcb_class(self, it, k):
        """Grapheme break class of character k (forks on the code point)."""
        cp = self.cps[k]
        if isinstance(cp, int):
            return gcb_of(cp)
        classes = ["CR", "LF", "Control", "Extend", "ZWJ", "ExtPict", "Other"]
        guards = [class_formula(cp, c) for c in classes]
        return classes[it.ex.decide(guards)]

    def next_boundary(self, it, cursor):
        start = self.index_of(it, cursor.off)
        if start >= self.n:
            return ok(none())
        cls = [self.gcb_class(it, start)]
        k = start + 1
        while k < self.n:
            cls.append(self.gcb_class(it, k))
            if no_break(cls, len(cls) - 1):
                k += 1
            else:
                break
        return ok(some(self.offs[k]))


def ascii_pred(key, cp):
    ch = chr(cp)
    return {"alphabetic": ch.isascii() and ch.isalpha(), "alphanumeric": ch.isascii() and ch.isalnum(),
            "whitespace": cp in (9, 10, 11, 12, 13, 32), "ascii_digit": 48 <= cp <= 57}[key]


def gcb_of(cp):
    if cp == 13:
        return "CR"
    if cp == 10:
        return "LF"
    if cp < 32 or cp == 127:
        return "Control"
    return GCB.get(cp, "Other")


def class_formula(cp, c):
    if c == "CR":
        return cp == 13
    if c == "LF":
        return cp == 10
    if c == "Control":
        return z3.Or(z3.And(cp >= 0, cp < 32, cp != 10, cp != 13), cp == 127, *[cp == r for r, k in GCB.items() if k == "Control"])
    if c in ("Extend", "ZWJ", "ExtPict"):
        return z3.Or(*[cp == r for r, k in GCB.items() if k == c])
    others = [r for r in R_CODEPOINTS if r not in GCB]
    return z3.Or(z3.And(cp >= 32, cp < 127), *[cp == r for r in others])


def no_break(cls, i):
    """UAX #29 restricted to the classes of the model: is there NO boundary between i-1 and i?"""
    a, b = cls[i - 1], cls[i]
    if a == "CR" and b == "LF":
        return True                      # GB3
    if a in ("CR", "LF", "Control") or b in ("CR", "LF", "Control"):
        return False                     # GB4, GB5
    if b in ("Extend", "ZWJ"):
        return True                      # GB9
    if a == "ZWJ" and b == "ExtPict":
        # GB11: ExtPict Extend* ZWJ x ExtPict
        j = i - 2
        while j >= 0 and cls[j] == "Extend":
            j -= 1
        return j >= 0 and cls[j] == "ExtPict"
    return False


_TABLE = {}


def char_table(replay):
    if "info" not in _TABLE:
        r = replay.call({"op": "char_info", "chars": R_CODEPOINTS + list(range(128))})
        _TABLE["info"] = {e["cp"]: e for e in r["result"]}
    return _TABLE["info"]


REPRESENTATIVES = {"CR": 13, "LF": 10, "Control": 1, "Extend": 0x301, "ZWJ": 0x200D, "ExtPict": 0x1F44D, "Other": ord("a")}


def validate_model(replay, maxlen=4):
    """Compare the model's tables and grapheme rule with the compiled code.  Returns (checked, mismatches)."""
    info = char_table(replay)
    bad = []
    n = 0
    for cp in range(128):
        e = info[cp]
        for key in ("alphabetic", "alphanumeric", "whitespace", "ascii_digit"):
            n += 1
            if e[key] != ascii_pred(key, cp):
                bad.append("ascii predicate %s(%d): compiled %s" % (key, cp, e[key]))
        if e["len"] != 1:
            bad.append("utf8 width of %d" % cp)
    for cp in R_CODEPOINTS:
        n += 1
        if info[cp]["len"] != utf8_width(cp):
            bad.append("utf8 width of U+%04X" % cp)
    # other Control-class representatives and every other member of R
    reps = dict(REPRESENTATIVES)
    alts = {"Control": [1, 0x7F, 0x2028, 0x85, 9], "Other": [ord("a"), ord(" "), ord("§") if False else 0xA7, 0xE9, 0x4E2D, 0x1D465, 0x663, 0xA0, ord("~")]}
    import itertools
    classes = list(REPRESENTATIVES)
    for length in range(1, maxlen + 1):
        for seq in itertools.product(classes, repeat=length):
            variants = [[REPRESENTATIVES[c] for c in seq]]
            if length <= 2:
                # exercise the other members of the coarse classes as well
                for pos, c in enumerate(seq):
                    for a in alts.get(c, []):
                        v = [REPRESENTATIVES[x] for x in seq]
                        v[pos] = a
                        variants.append(v)
            for cps in variants:
                s = "".join(chr(x) for x in cps)
                cls = [gcb_of(x) for x in cps]
                k = 1
                while k < len(cps) and no_break(cls[:k + 1], k):
                    k += 1
                want = len("".join(chr(x) for x in cps[:k]).encode())
                r = replay.call({"op": "grapheme_next", "source": s, "offset": 0})
                n += 1
                if r.get("result") != want:
                    bad.append("grapheme boundary of %r: model %d, compiled %s" % (s, want, r))
    return n, bad
