"""Symbolic token sequences for the real parser.

A token's kind is a solver variable.  Nothing is decided when the sequence is built: each time the
parser asks `is tokens[i].variant a K?` (an `if let`, a `match` arm, one of the consume/expect macros)
the explorer answers by refining the set of kinds still allowed for that token -- forking only if
both answers are possible on the current path.  Tokens the parser never tells apart stay a set, so a
path stands for every sequence in the product of its sets."""
import z3

from .values import Adt, Struct, Big, InternalError

NULLARY = ["Asterisk", "Boolean", "Colon", "DoubleEquals", "Else", "Equals", "False", "GreaterThan",
           "GreaterThanOrEqualTo", "If", "Integer", "LeftCurly", "LeftParen", "LessThan", "LessThanOrEqualTo",
           "Minus", "Plus", "RightCurly", "RightParen", "Slash", "Then", "ThickArrow", "ThinArrow", "True", "Type"]
KINDS = NULLARY + ["Identifier", "IntegerLiteral", "LineBreak", "Semicolon"]
CODE = {k: i for i, k in enumerate(KINDS)}
# how the Rust enum sees a kind: (variant, payload kind)
RUST = {k: k for k in NULLARY}
RUST.update({"Identifier": "Identifier", "IntegerLiteral": "IntegerLiteral", "LineBreak": "Terminator", "Semicolon": "Terminator"})
SPELL = {"Asterisk": "*", "Boolean": "bool", "Colon": ":", "DoubleEquals": "==", "Else": "else", "Equals": "=", "False": "false",
         "GreaterThan": ">", "GreaterThanOrEqualTo": ">=", "If": "if", "Integer": "int", "LeftCurly": "{", "LeftParen": "(",
         "LessThan": "<", "LessThanOrEqualTo": "<=", "Minus": "-", "Plus": "+", "RightCurly": "}", "RightParen": ")", "Slash": "/",
         "Then": "then", "ThickArrow": "=>", "ThinArrow": "->", "True": "true", "Type": "type", "LineBreak": "\n", "Semicolon": ";"}


class TokNode:
    """Plays the role of an input node for Explorer.decide_ctor."""

    def __init__(self, uid, kinds=None):
        self.uid = uid
        self.tag = z3.Int("tok!" + uid)
        self.allowed0 = frozenset(kinds or KINDS)
        self.extra = []

    def tag_in(self, kinds):
        if len(kinds) == 1:
            (k,) = kinds
            return self.tag == CODE[k]
        return z3.Or(*[self.tag == CODE[k] for k in sorted(kinds)])

    def domain_constraints(self, ex=None):
        return [self.tag_in(self.allowed0)] + list(self.extra)

    def decided_cost(self, c, ex):
        return 0

    def on_decided(self, new, ex):
        pass


class TermType:
    """TerminatorType of a symbolic token (LineBreak | Semicolon): decided with the token's kind."""

    def __init__(self, node):
        self.node = node

    def match_ctor(self, it, cname, subpats, env, mod):
        if cname not in ("LineBreak", "Semicolon"):
            return False
        return it.ex.decide_ctor(self.node, frozenset([cname]))

    def __repr__(self):
        return "<terminator type of %s>" % self.node.uid


class TokVariant:
    """The `variant` field of a symbolic token."""

    def __init__(self, node, name, literal):
        self.node = node
        self.name = name
        self.literal = literal

    def __repr__(self):
        return "<variant of token %s>" % self.node.uid

    def match_ctor(self, it, cname, subpats, env, mod):
        ex = it.ex
        if cname == "Terminator":
            if not ex.decide_ctor(self.node, frozenset(["LineBreak", "Semicolon"])):
                return False
            return it.match_fields(Adt("token::Variant", "Terminator", [TermType(self.node)]), subpats, env, mod)
        if cname not in CODE:
            return False
        if not ex.decide_ctor(self.node, frozenset([cname])):
            return False
        if cname == "Identifier":
            return it.match_fields(Adt("token::Variant", "Identifier", [self.name]), subpats, env, mod)
        if cname == "IntegerLiteral":
            return it.match_fields(Adt("token::Variant", "IntegerLiteral", [self.literal]), subpats, env, mod)
        return True


class SymTokens:
    """n tokens with symbolic kinds; ranges are concrete and disjoint (token i covers [4i, 4i+2))."""

    def __init__(self, n, name_of, prefix="t"):
        self.n = n
        self.nodes = [TokNode("%s%d" % (prefix, i)) for i in range(n)]
        self.names = [name_of(i) for i in range(n)]
        self.literals = [Big(z3.Int("lit!%s%d" % (prefix, i))) for i in range(n)]
        self.tokens = []
        for i in range(n):
            rng = Struct("error::SourceRange", {"start": 4 * i, "end": 4 * i + 2})
            self.tokens.append(Struct("token::Token", {"source_range": rng, "variant": TokVariant(self.nodes[i], self.names[i], self.literals[i])}))

    def range_of(self, i):
        return (4 * i, 4 * i + 2)

    def constraints(self, first, last):
        """What the tokenizer guarantees about its output: a line-break terminator stands between a
        token that can end an expression and one that can begin one (C09/C10 check exactly this);
        literals are non-negative."""
        cs = []
        n = self.n
        for i, nd in enumerate(self.nodes):
            lb = nd.tag == CODE["LineBreak"]
            if i == 0 or i == n - 1:
                cs.append(z3.Not(lb))
            else:
                cs.append(z3.Implies(lb, z3.And(self.nodes[i - 1].tag_in(frozenset(last)), self.nodes[i + 1].tag_in(frozenset(first)))))
            cs.append(self.literals[i].v >= 0)
        return cs

    def kinds(self, ex, model):
        from .terms import mval
        return [KINDS[mval(model, nd.tag)] for nd in self.nodes]

    def allowed(self, ex):
        return [sorted(ex.allowed(nd)) for nd in self.nodes]
