"""Value model of the gramsym symbolic executor.

Scalars are Python ints/bools when concrete and z3 expressions when symbolic.  `usize` values are
bare (int | z3 ArithRef); `isize` and `BigInt` values are wrapped (ISz, Big) so that the executor
knows which subtraction can underflow.  Algebraic data are Python objects with concrete constructor;
a value whose constructor is not known is a `Union` of guarded alternatives or an `InputVariant`
(a lazily refined symbolic input node).
"""
import z3


class InternalError(Exception):
    """The executor met something it does not model: the check is inconclusive."""


class Adt:
    __slots__ = ("enum", "variant", "fields")

    def __init__(self, enum, variant, fields=()):
        self.enum = enum
        self.variant = variant
        self.fields = list(fields)

    def __repr__(self):
        if self.fields:
            return "%s(%s)" % (self.variant, ", ".join(map(repr, self.fields)))
        return self.variant


class Struct:
    __slots__ = ("name", "fields")

    def __init__(self, name, fields):
        self.name = name
        self.fields = fields

    def __repr__(self):
        return "%s{%s}" % (self.name, ", ".join("%s: %r" % kv for kv in self.fields.items()))


class TupleV(list):
    def __repr__(self):
        return "(" + ", ".join(map(repr, self)) + ")"


class VecV(list):
    pass


class Big:
    """num_bigint::BigInt: exact integer."""
    __slots__ = ("v",)

    def __init__(self, v):
        self.v = v

    def __repr__(self):
        return "Big(%s)" % (self.v,)


class ISz:
    """isize"""
    __slots__ = ("v",)

    def __init__(self, v):
        self.v = v

    def __repr__(self):
        return "ISz(%s)" % (self.v,)


class Char:
    """A Unicode scalar value; v is int or z3 Int."""
    __slots__ = ("v",)

    def __init__(self, v):
        self.v = v

    def __repr__(self):
        return "Char(%s)" % (self.v,)


class CellV:
    """RefCell<T>.  Content lives in the explorer's path-local store when `persistent` (an input
    cell that exists across paths); otherwise in `.content`."""
    __slots__ = ("cid", "content", "persistent", "init")

    def __init__(self, cid, content=None, persistent=False):
        self.cid = cid
        self.content = content
        self.persistent = persistent
        self.init = content

    def __repr__(self):
        return "Cell#%s" % (self.cid,)


class Ref:
    """A reference to a slot of a mutable aggregate (tuple element, vec element, local)."""
    __slots__ = ("obj", "key")

    def __init__(self, obj, key):
        self.obj = obj
        self.key = key

    def get(self):
        return self.obj[self.key]

    def set(self, v):
        self.obj[self.key] = v


class Closure:
    __slots__ = ("params", "body", "env", "interp", "module")

    def __init__(self, params, body, env, interp, module):
        self.params = params
        self.body = body
        self.env = env
        self.interp = interp
        self.module = module


class PyFn:
    """A builtin callable exposed as a first-class function value (e.g. `Rc::new` passed to map)."""
    __slots__ = ("fn", "name")

    def __init__(self, fn, name=""):
        self.fn = fn
        self.name = name


class Str:
    """An opaque or concrete string.  `s` is a Python str when concrete, else None; `parts` keeps
    what it was built from (for diagnostics inspection)."""
    __slots__ = ("s", "parts", "captures")

    def __init__(self, s=None, parts=()):
        self.s = s
        self.parts = parts
        self.captures = None

    def __repr__(self):
        return "Str(%r)" % (self.s if self.s is not None else self.parts,)


class Union:
    """Guarded alternatives [(guard: z3 Bool, value)], mutually exclusive."""
    __slots__ = ("alts",)

    def __init__(self, alts):
        self.alts = alts

    def __repr__(self):
        return "Union(%d alts)" % len(self.alts)


class Opaque:
    """A value the model does not look into (source paths, colored strings...)."""
    __slots__ = ("what",)

    def __init__(self, what):
        self.what = what

    def __repr__(self):
        return "Opaque(%s)" % (self.what,)


UNIT = TupleV()


def is_sym(v):
    return isinstance(v, z3.ExprRef)


def some(v):
    return Adt("Option", "Some", [v])


NONE = Adt("Option", "None")


def none():
    return Adt("Option", "None")


def ok(v):
    return Adt("Result", "Ok", [v])


def err(v):
    return Adt("Result", "Err", [v])


# ---------------------------------------------------------------------------------------------
# scalar helpers (concrete fast path)

def z_and(*xs):
    out = []
    for x in xs:
        if x is True:
            continue
        if x is False:
            return False
        out.append(x)
    if not out:
        return True
    if len(out) == 1:
        return out[0]
    return z3.And(*out)


def z_or(*xs):
    out = []
    for x in xs:
        if x is False:
            continue
        if x is True:
            return True
        out.append(x)
    if not out:
        return False
    if len(out) == 1:
        return out[0]
    return z3.Or(*out)


def z_not(x):
    if x is True:
        return False
    if x is False:
        return True
    return z3.Not(x)


def z_ite(c, a, b):
    if c is True:
        return a
    if c is False:
        return b
    if a is b:
        return a
    if isinstance(a, bool) and isinstance(b, bool):
        if a == b:
            return a
        return c if a else z3.Not(c)
    if isinstance(a, bool):
        a = z3.BoolVal(a)
    if isinstance(b, bool):
        b = z3.BoolVal(b)
    if isinstance(a, int) and isinstance(b, int) and a == b:
        return a
    if isinstance(a, int):
        a = z3.IntVal(a)
    if isinstance(b, int):
        b = z3.IntVal(b)
    if z3.eq(a, b):
        return a
    return z3.If(c, a, b)


def z_eq(a, b):
    if isinstance(a, (int, bool)) and isinstance(b, (int, bool)):
        return a == b
    if isinstance(a, bool):
        a = z3.BoolVal(a)
    if isinstance(b, bool):
        b = z3.BoolVal(b)
    r = a == b
    return z3.simplify(r) if False else r


def to_z3_bool(x):
    if isinstance(x, bool):
        return z3.BoolVal(x)
    return x
