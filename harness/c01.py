"""C01 -- accepted programs never get stuck at run time (progress).

Pipeline executed by path forking: the real parser::check_definitions (definition-order half of
"accepted by the front end") and type_checker::type_check on parser-shaped programs; if both accept,
evaluator::step is iterated on the elaborated term (fuel-bounded).  Obligation: the evaluation never
halts on a non-value, except when the innermost active redex is a division whose divisor is zero.
The executor names *why* a term is stuck, so violations are attributed by role."""
import json
import os
import sys
import time

import z3

sys.path.insert(0, os.path.dirname(os.path.dirname(os.path.abspath(__file__))))

from gramsym.harness import Harness, run_main
from gramsym import inputs as I, terms as T
from gramsym.values import (Adt, Struct, TupleV, VecV, Str, Union, none, some, z_and, z_or, z_not, z_eq, is_sym, InternalError)
from gramsym.explorer import PathAbort, FuelExhausted, Frame
from gramsym.refs import RefUnknown
from gramsym.lawlib import ConcreteCtx, empty_model, concrete_truth, split_option
from gramsym.parallel import parallel_explore
from gramsym.interp import PanicEx
import tc_common as TC
import c03

PID = "C01"
VALUES = ("Type", "Lambda", "Pi", "Integer", "IntegerLiteral", "Boolean", "True", "False")


def view1(ex, it, t):
    """(ctor, adt) of a concrete-shaped term, following solved holes; unsolved hole -> ('Unifier', adt)."""
    while True:
        vs = T.views(ex, t)
        if len(vs) != 1:
            i = ex.decide([g for g, _, _ in vs])
            vs = [vs[i]]
        _, ct, adt = vs[0]
        if ct != "Unifier":
            return ct, adt
        content = ex.cell_get(adt.fields[0])
        if isinstance(content, Union):
            content = content.alts[ex.decide([g for g, _ in content.alts])][1]
        if content.variant != "Some":
            return ct, adt
        t = content.fields[0]


def stuck_reason(ex, it, t):
    """Why does `step` not apply to the non-value t?  (role of the innermost active position)"""
    ct, adt = view1(ex, it, t)
    f = adt.fields

    def isval(x):
        return view1(ex, it, x)[0] in VALUES
    if ct == "Variable":
        return "a variable that is not (yet) defined is evaluated"
    if ct == "Unifier":
        return "an unresolved hole is evaluated"
    if ct == "Application":
        if not isval(f[0]):
            return stuck_reason(ex, it, f[0])
        if not isval(f[1]):
            return stuck_reason(ex, it, f[1])
        return "call of a non-function"
    if ct.startswith("Let"):
        return stuck_reason(ex, it, f[0][0][2])
    if ct == "Negation":
        if not isval(f[0]):
            return stuck_reason(ex, it, f[0])
        return "arithmetic on a non-integer"
    if ct == "If":
        if not isval(f[0]):
            return stuck_reason(ex, it, f[0])
        return "condition is not a Boolean"
    if ct in I.BINARY:
        if not isval(f[0]):
            return stuck_reason(ex, it, f[0])
        if not isval(f[1]):
            return stuck_reason(ex, it, f[1])
        cl, al = view1(ex, it, f[0])
        cr, ar = view1(ex, it, f[1])
        if cl == "IntegerLiteral" and cr == "IntegerLiteral":
            if ct == "Quotient":
                z = z_eq(ar.fields[0].v, 0)
                if (z if isinstance(z, bool) else ex.branch(z)):
                    return "division by zero"
            return "unexpected: both operands are literals"
        return "arithmetic on a non-integer"
    return "unexpected stuck %s" % ct


def obligations(ex, it, root, steps=60):
    info = lambda m: dict(TC.input_case(ex, m, root), events=[k for k, _ in ex.f.events])
    errs = VecV()
    try:
        it.call("parser", "check_definitions", [none(), Str(""), root, 0, errs])
    except FuelExhausted:
        ex.count("fuel")
        return
    if len(errs) > 0:
        ex.count("rejected:definition-order")
        return
    try:
        res, _, _ = TC.call_type_check(it, root)
    except FuelExhausted:
        ex.count("fuel")
        return
    if res.variant != "Ok":
        ex.count("rejected:type")
        return
    e, ty = res.fields[0]
    ex.count("accepted")
    cur = e
    try:
        for i in range(steps):
            r = it.resolve(it.call("evaluator", "step", [cur]))
            if r.variant != "Some":
                break
            cur = r.fields[0]
        else:
            ex.count("still-running")
            return
        v = it.truth(it.call("evaluator", "is_value", [cur]))
    except FuelExhausted:
        ex.count("still-running")
        return
    if v:
        ex.count("value")
        ex.check(True, "P0.ends-in-a-value")
        return
    why = stuck_reason(ex, it, cur)
    if why == "division by zero":
        ex.count("division-by-zero")
        ex.check(True, "P0.stops-only-for-division-by-zero")
        return
    ex.check(False, "P0.stuck: " + why, info=info)
    if len(ex.samples) < 2:
        m = ex.path_model()
        if m is not None:
            c = TC.input_case(ex, m, root)
            ex.samples.append({"program": T.show(c["t"], c["cells"]), "stuck": why})


def order_family(n, quick, deep=False):
    """Groups of n definitions with omitted annotations whose definitions are leaves, sums, calls or
    lambdas over leaves: forward references, values and non-values in every order.  deep: the second
    child of a definition (a lambda's body, a right operand, an argument) may itself be a sum or a
    call over leaves, so that a function's body can *use* the group member it mentions."""
    leaves = ["Variable", "IntegerLiteral"]
    defs = ["IntegerLiteral", "Variable", "Sum", "Lambda", "Application"]
    body = ["Variable", "Application"] if quick else ["Variable", "Application", "Sum"]
    if deep:
        # functions whose body computes with group members, called by non-value members
        defs = ["IntegerLiteral", "Lambda", "Application"]
        body = ["Variable"]

    def alpha(node):
        if node.depth == 1:
            return ["Let%d" % n]
        if node.depth == 2:
            if node.slot == 2 * n:
                return body
            return ["Unifier"] if node.slot % 2 == 0 else defs
        # depth 3: children of a definition or of the body
        if node.depth == 3:
            if node.slot == 0:
                return leaves + ["Integer"]
            if deep and node.parent.slot != 2 * n:
                return leaves + ["Sum"]      # only under a Lambda, see DeepOrderSpace
            return leaves
        return ["Variable"] if deep else leaves
    return alpha


class DeepOrderSpace(TC.ProgramSpace):
    """The deeper order family: only a *function body* may be a sum or a call (path-local
    restriction applied when the definition's constructor is decided)."""

    def on_decided(self, node, new, ex):
        if node.depth == 2 and "Lambda" not in new and any(I.ARITY[c] >= 2 for c in new):
            ex.restrict(node.kid(1), frozenset(["Variable", "IntegerLiteral"]))


def nested_family():
    """A group nested in a definition of a group: x = (y = ..; z = ..; y); x"""
    def alpha(node):
        d, sl = node.depth, node.slot
        if d == 1:
            return ["Let1"]
        if d == 2:
            return [["Unifier"], ["Let2"], ["Variable"]][sl]
        if d == 3:
            if sl in (0, 2):
                return ["Unifier"]
            if sl == 4:
                return ["Variable"]
            return ["IntegerLiteral", "Variable", "Sum"]
        return ["Variable", "IntegerLiteral"]
    return alpha


def make_family(H, n, quick, alpha=None, depth=3, deep=False):
    alpha = alpha or order_family(n, quick, deep)

    def make():
        ex, it = H.engine(solver_timeout_ms=120000)
        ex.fuel = 4000
        it.max_call_depth = 600
        sp = (DeepOrderSpace if deep else TC.ProgramSpace)("p", depth, alpha, scope=0)
        root = sp.root()

        def body(ex):
            it.call_depth = 0
            try:
                obligations(ex, it, root, steps=40)
            except PanicEx as p:
                ex.check(False, "PANIC %s (%s.rs:%s)" % (p.msg, p.module, p.line), info=lambda m: TC.input_case(ex, m, root))
        return ex, body, None
    return make


def confirm(H, label, case):
    """End to end on the compiled code: check_definitions + type_check + step iteration."""
    replay = H.get_replay()
    shown = "program %s" % T.show(case["t"], case.get("cells"))
    cd = replay.call({"op": "check_definitions", "term": case["t"], "cells": case.get("cells", {}), "depth": 0, "source": ""})
    if cd.get("errors"):
        return False, "%s is rejected by the compiled definition-order check" % shown
    r = TC.native_type_check(replay, case)
    if "ok" not in r:
        return False, "%s is rejected by the compiled type checker" % shown
    st = replay.call({"op": "steps", "term": r["ok"]["term"], "cells": r["cells"], "limit": 2000})
    if "term" not in st:
        return True, "%s: compiled evaluation failed: %s" % (shown, st)
    if st["exhausted"]:
        return False, "%s keeps running" % shown
    if st["is_value"]:
        return False, "%s evaluates to the value %s" % (shown, st["shown"])
    cx = ConcreteCtx()
    cell_objs = {}
    final = T.from_json(st["term"], st["cells"], cell_objs)
    why = stuck_reason(cx, None, final)
    if why == "division by zero":
        return False, "%s stops for a division by zero" % shown
    return True, "%s (elaborated: %s) is accepted by the definition-order check and the type checker, but evaluation is stuck at %s: %s" % (
        shown, r["ok"]["term_shown"], st["shown"], why)


J_VALUES = ("Type", "Lambda", "Pi", "Integer", "IntegerLiteral", "Boolean", "True", "False")


def j_free(j, cutoff, acc):
    """Free variables (relative to cutoff) of term JSON, annotations included, like term::free_variables."""
    c = j["v"]
    if c == "Variable":
        if j["index"] >= cutoff:
            acc.add(j["index"] - cutoff)
    elif c in ("Lambda", "Pi"):
        j_free(j["kids"][0], cutoff, acc)
        j_free(j["kids"][1], cutoff + 1, acc)
    elif c == "Let":
        n = len(j["defs"])
        for d in j["defs"]:
            j_free(d["ann"], cutoff + n, acc)
            j_free(d["def"], cutoff + n, acc)
        j_free(j["body"], cutoff + n, acc)
    else:
        for k in j.get("kids", []):
            j_free(k, cutoff, acc)


def order_errors(j, strict):
    """The definition-order rule on term JSON.  strict=False: the rule as gram's maintainers wrote it
    (a definition that is a value may be used before it is evaluated), applied to every group of
    the program; strict=True: a definition may only use members that are evaluated before it."""
    errs = []

    def check(defs, start, cur, visited):
        acc = set()
        j_free(defs[cur]["def"], 0, acc)
        n = len(defs)
        for v in sorted(acc):
            if v < n:
                idx = n - 1 - v
                if idx in visited:
                    continue
                visited.add(idx)
                val = defs[idx]["def"]["v"] in J_VALUES
                if strict:
                    if idx >= start:
                        errs.append((start, idx))
                    elif val:
                        check(defs, start, idx, visited)
                else:
                    if val:
                        check(defs, start, idx, visited)
                    elif idx >= start:
                        errs.append((start, idx))

    def walk(t):
        c = t["v"]
        if c == "Let":
            defs = t["defs"]
            for i, d in enumerate(defs):
                if d["def"]["v"] not in J_VALUES:
                    check(defs, i, i, set())
            for d in defs:
                walk(d["def"])
            walk(t["body"])
        else:
            for k in t.get("kids", []):
                walk(k)
    walk(j)
    return errs


def classify(label, case):
    if "open_fresh_hole" in case.get("events", []):
        return "hole-copied-by-open"
    if "unresolved hole" in label:
        return "C01-unresolved-hole-accepted"
    if "not (yet) defined" in label:
        # attributable to the listed finding only if the maintainers' rule, applied to every group,
        # accepts the program while the strict rule rejects it
        if not order_errors(case["t"], strict=False) and order_errors(case["t"], strict=True):
            return "C01-value-definition-used-early"
    return None


def main():
    H = Harness(PID)
    quick = H.tier == "quick"
    if H.args.replay:
        with open(H.args.replay) as fh:
            rec = json.load(fh)
        fn = confirm_skeleton if "skeleton" in rec["case"] else confirm
        reproduced, detail = fn(H, rec["label"], rec["case"])
        print(("REPRODUCED: " if reproduced else "NOT REPRODUCED: ") + detail)
        return 1 if reproduced else 0
    c03.validate(H, 100 if quick else 500)
    validate_order(H, 80 if quick else 400)
    budget = 4 if quick else 5
    parts = [("pipeline on programs B(%d) with holes" % budget, c03.make_factory(H, budget, TC.WITH_HOLES, 40000, obligations)),
             ("definition-order family: groups of 2 definitions", make_family(H, 2, quick)),
             ("definition-order family: a group nested in a definition", make_family(H, 2, quick, nested_family(), 4))]
    parts.append(("definition-order family: groups of 2 definitions, bodies and operands one level deeper", make_family(H, 2, True, depth=4, deep=True)))
    if not quick:
        parts.append(("definition-order family: groups of 3 definitions", make_family(H, 3, True)))
    only = os.environ.get("C01_PARTS")
    if only:
        parts = [p for i, p in enumerate(parts) if str(i) in only]
    if not only or "S" in only:
        run_skeletons(H)
    for name, mk in parts:
        t0 = time.time()
        m = parallel_explore(mk, H.jobs)
        H.absorb_merged(name, m)
        H.log("%s: %d paths %s, %d obligations, %d discharged, %d workers, %.1fs" % (
            name, m.stats.get("paths", 0), m.counters, m.stats.get("obligations", 0), m.stats.get("discharged", 0), m.workers, time.time() - t0))
        c03.handle(H, m.violations, confirm_fn=confirm, classify_fn=classify)
    H.bounds.update({"programs": "closed parser-shaped programs of at most %d nodes with holes; groups of 2 (thorough: 3) definitions over leaves, sums, calls and lambdas" % budget,
                     "steps": "evaluation followed for 40-60 steps; longer runs count as 'still running'",
                     "outside": "tokenizer and packrat stage (inputs are terms satisfying the parser-output invariants); larger programs"})
    return H.finish()


def run_skeletons(H):
    """Progress on program skeletons accepted by the compiled front end (recursion, mutual recursion,
    local groups, a recursive definition that uses a later sibling), every literal symbolic: the real
    `step` is iterated on the elaborated term and must end in a value (or a division by zero)."""
    if H.worker:
        return
    import c02
    for name, src, build, syms, assumptions, info in c02.skeleton_inputs(H):
        ex, it = H.engine(assumptions=assumptions, solver_timeout_ms=120000)
        ex.fuel = 200000
        it.max_call_depth = 3000

        def body(ex, build=build, info=info):
            it.call_depth = 0
            cur = build()
            try:
                for i in range(400):
                    r = it.resolve(it.call("evaluator", "step", [cur]))
                    if r.variant != "Some":
                        break
                    cur = r.fields[0]
                else:
                    ex.count("still-running")
                    return
                v = it.truth(it.call("evaluator", "is_value", [cur]))
            except FuelExhausted:
                ex.count("still-running")
                return
            except PanicEx as p:
                ex.check(False, "PANIC %s (%s.rs:%s)" % (p.msg, p.module, p.line), info=info)
                return
            if v:
                ex.count("value")
                ex.check(True, "P0.ends-in-a-value")
                return
            why = stuck_reason(ex, it, cur)
            if why == "division by zero":
                ex.count("division-by-zero")
                return
            ex.check(False, "P0.stuck: " + why, info=info)
        t0 = time.time()
        ex.explore(body)
        H.absorb("skeleton " + name, ex)
        H.log("skeleton %-34s %d paths %s, %d obligations, %d discharged, %.1fs" % (name, ex.stats.paths, dict(ex.counters), ex.stats.obligations, ex.stats.discharged, time.time() - t0))
        for v in ex.violations[:2]:
            reproduced, detail = confirm_skeleton(H, v.label, v.info)
            H.report(v.label, v.info, reproduced, detail)


def confirm_skeleton(H, label, case):
    replay = H.get_replay()
    st = replay.call({"op": "steps", "term": case["t"], "cells": {}, "limit": 20000})
    if "term" not in st:
        return True, "skeleton %s: compiled evaluation failed: %s" % (case.get("skeleton"), st)
    if st["exhausted"] or st["is_value"]:
        return False, "skeleton %s evaluates to %s" % (case.get("skeleton"), st.get("shown"))
    cx = ConcreteCtx()
    why = stuck_reason(cx, None, T.from_json(st["term"], st.get("cells", {}), {}))
    if why == "division by zero":
        return False, "division by zero"
    return True, "skeleton %s (accepted by the compiled front end) is stuck at %s: %s" % (case.get("skeleton"), st["shown"], why)


def validate_order(H, n):
    """Concrete differential for check_definitions: interpreter vs compiled code."""
    if H.worker:
        return
    from gramsym.termgen import random_program
    replay = H.get_replay()
    ex, it = H.engine()
    ex.frames.append(Frame(ex._new_solver()))
    bad = 0
    for i in range(n):
        ex.fuel_left = 10 ** 6
        ex.eval_left = 10 ** 8
        it.call_depth = 0
        tj, cells = random_program(H.rng, depth=H.rng.randint(2, 4), holes=True, groups=3)
        tv = T.from_json(tj, cells, {})
        errs = VecV()
        it.call("parser", "check_definitions", [none(), Str(""), tv, 0, errs])
        exp = replay.call({"op": "check_definitions", "term": tj, "cells": cells, "depth": 0, "source": ""})
        if "errors" not in exp:
            continue
        if len(errs) != len(exp["errors"]):
            bad += 1
            H.mismatches.append({"label": "validate.check_definitions", "case": {"t": tj}, "detail": "interpreter %d errors, compiled %d" % (len(errs), len(exp["errors"]))})
        H.validated += 1
    ex.frames.pop()
    H.functions |= ex.functions_executed
    H.log("encoder validation of check_definitions: %d programs, %d disagreements" % (n, bad))


if __name__ == "__main__":
    run_main(main)
