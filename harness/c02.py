"""C02 -- running a program yields the value the language semantics prescribes.

(a) evaluator::step (with is_value, open, unsigned_shift) is executed symbolically over merged term
    templates and compared with an independent one-step call-by-value reference: same reducibility,
    same reduct, for every term shape in the bound and all integer operands.
(b) values do not step.
(c) evaluator::evaluate on small programs explored by forking (node budget, fuel) against a big-step
    environment interpreter with letrec back-patching: same outcome (value / stuck) and same ground value.
"""
import json
import os
import sys
import time

import z3

sys.path.insert(0, os.path.dirname(os.path.dirname(os.path.abspath(__file__))))

from gramsym.harness import Harness, run_main
from gramsym import inputs as I, terms as T
from gramsym.refs import StepRef, VALUE_CTORS
from gramsym.values import (ISz, Big, Union, Adt, Struct, z_and, z_or, z_not, z_eq, is_sym, InternalError)
from gramsym.interp import PanicEx
from gramsym.explorer import Explorer, Frame, PathAbort, FuelExhausted
from gramsym.termgen import random_term
from gramsym.lawlib import (implies, iff, split_option, NativeFailure, JTerm, val, concrete_truth, ConcreteCtx,
                            empty_model, check_term_eq)
from gramsym.bigstep import BigStep, Stuck, OutOfFuel

PID = "C02"
NONAMES = T.EqOpts(names=True, source_ranges=False)


class SymImpl:
    def __init__(self, it):
        self.it = it

    def step(self, t):
        return split_option(self.it.call("evaluator", "step", [t]))

    def is_value(self, t):
        return self.it.call("evaluator", "is_value", [t])


class NativeImpl:
    def __init__(self, replay):
        self.replay = replay
        self.trace = []

    def step(self, t):
        r = self.replay.call({"op": "step", "term": t.json, "cells": {}})
        self.trace.append(("step", r))
        if "result" not in r:
            raise NativeFailure(r)
        if r["result"] is None:
            return False, None
        return True, JTerm(r["result"])

    def is_value(self, t):
        r = self.replay.call({"op": "is_value", "term": t.json})
        self.trace.append(("is_value", r))
        if "result" not in r:
            raise NativeFailure(r)
        return r["result"]


def laws(impl, R, ex, v, check):
    t = v["t"]
    some, r = impl.step(t)
    rs, rref = R.step(val(t))
    check("S0.reducible-iff-reference", iff(some, rs))
    if r is not None and rref is not None:
        check_term_eq(ex, check, "S0.reduct-equals-reference", z_and(some, rs), r, rref, NONAMES)
    isv = impl.is_value(t)
    check("S1.is_value-agrees", iff(isv, R.is_value(val(t))))
    check("S1.values-do-not-step", implies(isv, z_not(some)))


def main():
    H = Harness(PID)
    quick = H.tier == "quick"
    replay = H.get_replay()
    if H.args.replay:
        with open(H.args.replay) as fh:
            rec = json.load(fh)
        reproduced, detail = confirm(H, rec["label"], rec["case"])
        print(("REPRODUCED: " if reproduced else "NOT REPRODUCED: ") + detail)
        return 1 if reproduced else 0
    validate(H, 80 if quick else 400)
    full = [ct for ct in I.ALL_HOLE_FREE + ["Let0"]]
    groups3 = {1: ["Let1", "Let2", "Let3"], 2: ["Integer", "Variable", "IntegerLiteral", "Lambda", "Type"],
               3: ["Variable", "IntegerLiteral", "Integer"]}
    groups4 = {1: ["Let1", "Let2", "Let3"], 2: ["Lambda", "Variable", "IntegerLiteral", "Integer"],
               3: ["Variable", "Integer", "Sum", "Application", "IntegerLiteral"], 4: ["Variable", "IntegerLiteral"]}
    redex4 = {1: ["Application", "If", "Sum", "Quotient", "LessThan", "Negation", "EqualTo"],
              2: ["Lambda", "Application", "If", "Sum", "Variable", "IntegerLiteral", "True", "False"],
              3: ["Variable", "IntegerLiteral", "True", "Lambda", "Sum"], 4: ["Variable", "IntegerLiteral"]}
    nested4 = {1: ["Application", "Let1", "Let2"], 2: ["Lambda", "Let1", "Variable", "IntegerLiteral", "Integer"],
               3: ["Lambda", "Variable", "Integer", "IntegerLiteral", "Difference"], 4: ["Variable", "IntegerLiteral", "Integer"]}
    configs = [("T(2,3) all constructors", 2, lambda n: full),
               ("groups G(3): 1-3 definitions, lambda or leaf definitions", 3, lambda n: groups3[n.depth]),
               ("redexes R(4): operators/calls/conditionals over lambdas and operands", 4, lambda n: redex4[n.depth])]
    if not quick:
        configs += [("groups G(4): 1-3 definitions with lambda bodies that compute", 4, lambda n: groups4[n.depth]),
                    ("nested N(4): groups and calls nested in each other", 4, lambda n: nested4[n.depth])]
    if os.environ.get("C02_ONLY") == "skeletons":
        run_skeletons(H, quick)
        return H.finish()
    only = os.environ.get("C02_CONFIGS")
    if only:
        configs = [c for i, c in enumerate(configs) if str(i) in only]
    for name, depth, alpha in configs:
        run_step_config(H, name, depth, alpha)
    if only:
        return H.finish()
    budget = 5 if quick else 6
    run_evaluate(H, budget, fuel=400 if quick else 1500)
    run_skeletons(H, quick)
    H.bounds.update({"step": "hole-free templates, operands/indices unbounded: %s" % "; ".join(c[0] for c in configs),
                     "evaluate": "all closed hole-free terms with at most %d nodes (groups <= 2 definitions); fuel-bounded; plus %d program skeletons with symbolic literals" % (budget, len(SKELETONS)),
                     "outside": "terms with unresolved holes, deeper terms, evaluation beyond the fuel bound, exactness of num-bigint itself"})
    H.assumptions += ["hole-free terms (elaborated, fully solved programs)", "BigInt modelled as mathematical integers"]
    return H.finish()


def validate(H, n):
    if H.worker:
        return
    replay = H.get_replay()
    ex, it = H.engine()
    ex.frames.append(Frame(ex._new_solver()))
    em = empty_model()
    bad = 0
    for i in range(n):
        ex.fuel_left = 10 ** 6
        it.call_depth = 0
        tj = random_term(H.rng, depth=H.rng.randint(2, 4), max_index=2, holes=False)
        tv = T.from_json(tj)
        conc = T.Concretizer(ex, em)
        got = it.call("evaluator", "step", [tv])
        exp = replay.call({"op": "step", "term": tj, "cells": {}})
        gj = None if got.variant == "None" else conc.term(got.fields[0])
        if T.canon(gj) != T.canon(exp.get("result")):
            bad += 1
            H.mismatches.append({"label": "validate.step", "case": {"t": tj}, "detail": "interpreter %s, compiled %s" % (gj, exp)})
        H.validated += 1
        # a few steps of evaluation
        cur = tv
        curj = tj
        for _ in range(6):
            r = replay.call({"op": "step", "term": curj, "cells": {}})
            if r.get("result") is None:
                break
            try:
                g2 = it.call("evaluator", "step", [T.from_json(curj)])
            except FuelExhausted:
                break
            g2j = None if g2.variant == "None" else T.Concretizer(ex, em).term(g2.fields[0])
            if T.canon(g2j) != T.canon(r["result"]):
                bad += 1
                H.mismatches.append({"label": "validate.step", "case": {"t": curj}, "detail": "interpreter %s, compiled %s" % (g2j, r)})
                break
            H.validated += 1
            curj = r["result"]
    ex.frames.pop()
    H.functions |= ex.functions_executed
    H.log("encoder validation: %d concrete steps compared with the compiled code, %d disagreements" % (H.validated, bad))


def run_step_config(H, name, depth, alpha):
    if H.worker:
        return
    ex, it = H.engine(solver_timeout_ms=600000)
    it.summarize_fns = {"step", "is_value", "open", "unsigned_shift", "signed_shift"}
    sp = I.InputSpace("t", depth, alpha)
    t = sp.root()
    v = {"t": t}

    def body(ex):
        ex.eq_cache = {}
        R = StepRef(ex)
        impl = SymImpl(it)

        tally = {}

        def check(label, prop):
            t0 = time.time()
            ok = ex.check(prop, label, info=lambda m: {"t": T.Concretizer(ex, m).term(t)})
            e = tally.setdefault(label, [0, 0, 0.0])
            e[0] += 1
            e[1] += 0 if ok else 1
            e[2] += time.time() - t0
        laws(impl, R, ex, v, check)
        for label, (n, bad, secs) in tally.items():
            H.log("  %s %-36s %s (%d queries, %.1fs)" % (name, label, "holds" if not bad else "VIOLATED/UNKNOWN", n, secs))

    t0 = time.time()
    ex.explore(body)
    H.absorb("step " + name, ex)
    H.log("step %s: %d summaries, %d paths, %d obligations, %d discharged, %.1fs" % (
        name, ex.stats.summaries, ex.stats.summary_paths + ex.stats.paths, ex.stats.obligations, ex.stats.discharged, time.time() - t0))
    handle_violations(H, ex)
    H.samples.append({"part": "step", "config": name, "obligations": ["S0.reducible-iff-reference", "S0.reduct-equals-reference",
                                                                      "S1.is_value-agrees", "S1.values-do-not-step"]})


def handle_violations(H, ex):
    seen = {}
    for viol in ex.violations:
        case = viol.info
        key = json.dumps(case, sort_keys=True)
        if (viol.label, key) in seen:
            continue
        seen[(viol.label, key)] = True
        if sum(1 for k2 in seen if k2[0] == viol.label) > 3:
            continue
        reproduced, detail = confirm(H, viol.label, case)
        H.report(viol.label, case, reproduced, detail)


def confirm_source(H, label, case):
    """A skeleton violation, natively and end to end: the compiled pipeline (tokenize, parse,
    type_check, evaluate) on the source text with the literals of the counterexample, against the
    big-step reference run on the term as PARSED."""
    replay = H.get_replay()
    src = case["source"]
    for k, v in sorted(case["literals"].items(), key=lambda kv: -len(kv[0])):
        src = src.replace(k, v if not v.startswith("-") else "(0 - %s)" % v[1:])
    r = replay.call({"op": "pipeline", "source": src, "run": True, "limit": 200000})
    if r.get("stage") != "done":
        return False, "the front end rejects %r: %s" % (src, str(r.get("err"))[:200])
    run = r.get("run") or {}
    if run.get("exhausted"):
        return False, "evaluation of %r did not finish" % src
    cx = ConcreteCtx()
    bs = BigStep(cx, None, fuel=200000)
    try:
        ref = bs.eval(T.from_json(r["parsed"], {k: None for k in r.get("cells", {})}, {}), [])
        rg = bs.ground(ref)
    except Stuck:
        rg = ("stuck",)
    except OutOfFuel:
        return False, "reference out of fuel"
    if not run.get("is_value"):
        got = ("stuck",)
    else:
        v = run["term"]
        got = ("lit", int(v["value"])) if v["v"] == "IntegerLiteral" else ("ctor", v["v"])
    want = rg if rg[0] != "lit" else ("lit", int(str(rg[1])))
    return (got != want), "`gram run` on %r gives %s (elaborated: %s); the semantics of the program as written prescribes %s" % (
        src, run.get("shown"), r.get("term_shown"), want)


def confirm(H, label, case):
    if label.startswith("E") and "literals" in case:
        return confirm_source(H, label, case)
    if label.startswith("E"):
        return confirm_evaluate(H, label, case)
    label = label.split(" ")[0]
    cx = ConcreteCtx()
    R = StepRef(cx)
    impl = NativeImpl(H.get_replay())
    v = {"t": JTerm(case["t"])}
    failed = []

    def check(lbl, prop):
        if not concrete_truth(prop):
            failed.append(lbl)
    try:
        laws(impl, R, cx, v, check)
    except NativeFailure as e:
        return True, "compiled code failed: %s" % (e,)
    if failed:
        outs = "; ".join("%s -> %s" % (op, T.show(r["result"]) if isinstance(r.get("result"), dict) else r.get("result")) for op, r in impl.trace)
        rs, rref = R.step(val(v["t"]))
        refs = "no step" if not concrete_truth(rs) else T.show(T.Concretizer(cx, empty_model()).term(rref))
        return True, "%s fails on the compiled code for t=%s; compiled: %s; reference step: %s" % (failed, T.show(case["t"]), outs, refs)
    return False, "law holds on the compiled code for this input"


# ---------------------------------------------------------------------------------------------
# (c) evaluate vs big-step

def ground(ex, t):
    """Ground summary of a value term: ('lit', n) | ('ctor', name)."""
    vs = T.views(ex, t)
    if len(vs) != 1:
        raise InternalError("value with undecided constructor")
    _, ct, adt = vs[0]
    if ct == "IntegerLiteral":
        return ("lit", adt.fields[0].v)
    return ("ctor", ct)


def concretize_ctor(ex, node):
    """Decide the constructor of an input node completely (forks)."""
    cur = ex.allowed(node)
    if len(cur) == 1:
        return next(iter(cur))
    for ct in sorted(cur, key=I.CTORS.index):
        if ex.decide_ctor(node, frozenset([ct])):
            return ct
    raise PathAbort()


def run_evaluate(H, budget, fuel):
    from gramsym.parallel import parallel_explore
    alpha = [ct for ct in I.ALL_HOLE_FREE if not ct.startswith("Let") or I.let_n(ct) <= 2]

    def make():
        ex, it = H.engine(node_budget=budget - 1, solver_timeout_ms=120000)
        ex.fuel = fuel * 40
        sp = I.InputSpace("p", budget, alpha, source_ranges=False, scope=0)
        root = sp.root()

        def body(ex):
            it.call_depth = 0
            info = lambda m: {"t": T.Concretizer(ex, m).term(root)}
            # (c1) one step of the real evaluator against the reference step
            R = StepRef(ex, concretize_ctor)
            some, r = split_option(it.call("evaluator", "step", [root]))
            rs, rref = R.step(root)
            ex.check(iff(some, rs), "S0.reducible-iff-reference", info=info)
            if r is not None and rref is not None:
                ex.check(implies(z_and(some, rs), T.term_eq(ex, r, rref, NONAMES)), "S0.reduct-equals-reference", info=info)
            # (c2) full evaluation against the big-step interpreter
            try:
                r = it.call("evaluator", "evaluate", [root])
            except FuelExhausted:
                ex.count("fuel")
                return
            r = it.resolve(r)
            bs = BigStep(ex, concretize_ctor, fuel=fuel)
            try:
                ref = bs.eval(root, [])
                ref_kind = "value"
            except Stuck:
                ref = None
                ref_kind = "stuck"
            except OutOfFuel:
                ex.count("fuel")
                return
            real_kind = "value" if r.variant == "Ok" else "stuck"
            ex.count(real_kind)
            ex.check(real_kind == ref_kind, "E0.outcome (real %s, reference %s)" % (real_kind, ref_kind), info=info)
            if real_kind == "value" and ref_kind == "value":
                g = ground(ex, r.fields[0])
                rg = bs.ground(ref)
                if g[0] != rg[0]:
                    ex.check(False, "E1.value-kind", info=info)
                elif g[0] == "lit":
                    ex.check(z_eq(g[1], rg[1]), "E1.integer-value", info=info)
                else:
                    ex.check(g[1] == rg[1], "E1.value-constructor", info=info)
            if len(ex.samples) < 2 and ex.stats.paths % 53 == 0:
                m = ex.path_model()
                if m is not None:
                    ex.samples.append({"part": "evaluate", "program": T.show(T.Concretizer(ex, m).term(root)), "outcome": real_kind})
        return ex, body, None

    t0 = time.time()
    m = parallel_explore(make, H.jobs)
    H.absorb_merged("evaluate B(%d)" % budget, m)
    H.log("evaluate B(%d): %d paths (%s), %d obligations, %d discharged, %d workers, %.1fs" % (
        budget, m.stats.get("paths", 0), m.counters, m.stats.get("obligations", 0), m.stats.get("discharged", 0), m.workers, time.time() - t0))
    handle_violation_records(H, m.violations)


def handle_violation_records(H, records):
    seen = {}
    for label, case, trace in records:
        key = json.dumps(case, sort_keys=True)
        lab = label.split(" ")[0]
        if (lab, key) in seen:
            continue
        seen[(lab, key)] = True
        if sum(1 for k2 in seen if k2[0] == lab) > 3:
            continue
        reproduced, detail = confirm(H, label, case)
        H.report(label, case, reproduced, detail)


# ---------------------------------------------------------------------------------------------
# (d) program skeletons: realistic programs (recursion, mutual recursion, higher-order functions,
# nested groups) with every integer literal symbolic; evaluate vs the big-step reference.
SKELETONS = [
    ("factorial", "f : (int -> int) = (n : int) => if n <= 9001 then 9002 else n * f (n - 9003)\nf 9004", {9004: (0, 3), 9003: (1, 1), 9001: (0, 1)}),
    ("sum-to", "s : (int -> int) = (n : int) => if n == 9001 then 9002 else n + s (n - 9003)\ns 9004", {9004: (0, 3), 9003: (1, 1), 9001: (0, 0)}),
    ("even-odd", "even : (int -> bool) = (n : int) => if n == 9001 then true else odd (n - 9002)\nodd : (int -> bool) = (n : int) => if n == 9001 then false else even (n - 9002)\neven 9003",
     {9003: (0, 3), 9002: (1, 1), 9001: (0, 0)}),
    ("twice", "twice = (f : int -> int) => (x : int) => f (f x)\ntwice ((y : int) => y * 9001 - 9002) 9003", {}),
    ("nested-groups", "x = (y = 9001 + 9002; y * 9003)\nz = x / 9004\nz - x", {}),
    ("curried", "((a : int) => (b : int) => (c : int) => a - b * c) 9001 9002 9003", {}),
    ("compare-chain", "m = (a : int) => (b : int) => if a < b then b else a\nm (m 9001 9002) 9003", {}),
    ("division", "d = (a : int) => (b : int) => a / b\nd 9001 9002 + d (-9003) 9004", {}),
    ("shadowing-free-let-in-lambda", "g = (n : int) => (k = n + 9001; h = (m : int) => m * k; h (k - 9002))\ng 9003", {}),
    # groups of 2-3 definitions under binders, inside recursion and inside functions passed to
    # higher-order functions: the evaluator shifts and substitutes across the group (S-C02-02)
    ("local-group-in-recursion", "s : (int -> int) = n =>\n  if n == 9001\n  then 9002\n  else (\n    a = n - 9003\n    b = s a\n    n + b\n  )\ns 9004", {9004: (0, 3), 9003: (1, 1), 9001: (0, 0)}),
    ("function-with-local-group-passed-on", "twice = (f : int -> int) => (x : int) => f (f x)\ntwice ((n : int) => (a = n + 9001; b = a * 9002; n + b)) 9003", {}),
    ("three-definitions-under-two-binders", "k = (x : int) => (y : int) => (a = x - 9001; b = y * 9002; c = a + b; x * c - y)\nap = (g : int -> int -> int) => (u : int) => g u (g 9003 u)\nap k 9004", {}),
    # a self-recursive definition that is NOT the last of its group and uses a later sibling after at
    # least one recursive call (S-C01-03: evaluator; S-C06-03: normalizer)
    ("recursion-then-later-sibling", "f : (int -> int) = n => if n <= 9001 then k else f (n - 9002)\nk = 9003\nf 9004", {9004: (0, 3), 9002: (1, 1), 9001: (0, 0)}),
    ("recursion-calls-later-function", "f : (int -> int) = n => if n == 9001 then 9002 else if n == 9003 then g 9004 else f (n - 9005)\ng : (int -> int) = m => m + 9006\nf 9007",
     {9007: (0, 3), 9005: (1, 1), 9001: (0, 0), 9003: (1, 1)}),
    ("geq-boundary", "m = (a : int) => (b : int) => if a >= b then 9001 else 9002\nm 9003 (9004 + 9005)", {}),
    ("every-comparison", "c = (a : int) => (b : int) => (if a < b then 1 else 0) + (if a <= b then 2 else 0) + (if a == b then 4 else 0) + (if a > b then 8 else 0) + (if a >= b then 16 else 0)\nc 9001 9002", {}),
    ("forward-function-reference", "a : (int -> int) = (n : int) => b (n + 9001)\nb : (int -> int) = (n : int) => n * 9002\na 9003", {}),
]


def symbolize(j, syms, ranges, assumptions):
    """Replace the placeholder literals 9001.. of a parsed program by symbolic integers."""
    if isinstance(j, dict):
        if j.get("v") == "IntegerLiteral" and int(j["value"]) >= 9000:
            k = int(j["value"])
            if k not in syms:
                syms[k] = z3.Int("lit%d" % k)
                if k in ranges:
                    lo, hi = ranges[k]
                    assumptions.append(syms[k] >= lo)
                    assumptions.append(syms[k] <= hi)
            return {"v": "SYM", "key": k}
        return {k2: symbolize(v2, syms, ranges, assumptions) for k2, v2 in j.items()}
    if isinstance(j, list):
        return [symbolize(x, syms, ranges, assumptions) for x in j]
    return j


def build_symbolic(j, syms, cells, cell_objs):
    if j["v"] == "SYM":
        return T.lit(syms[j["key"]])
    c = j["v"]
    if c in ("Variable", "Unifier", "IntegerLiteral", "Type", "Integer", "Boolean", "True", "False"):
        return T.from_json(j, cells, cell_objs)
    if c in ("Lambda", "Pi"):
        return T.mk(c, [j["name"], j["implicit"], build_symbolic(j["kids"][0], syms, cells, cell_objs), build_symbolic(j["kids"][1], syms, cells, cell_objs)])
    if c == "Let":
        return T.let([(d["name"], build_symbolic(d["ann"], syms, cells, cell_objs), build_symbolic(d["def"], syms, cells, cell_objs)) for d in j["defs"]],
                     build_symbolic(j["body"], syms, cells, cell_objs))
    return T.mk(c, [build_symbolic(k, syms, cells, cell_objs) for k in j["kids"]])


def instantiate(j, model, syms):
    if isinstance(j, dict):
        if j.get("v") == "SYM":
            return {"v": "IntegerLiteral", "value": str(T.mval(model, syms[j["key"]])), "sr": None}
        return {k2: instantiate(v2, model, syms) for k2, v2 in j.items()}
    if isinstance(j, list):
        return [instantiate(x, model, syms) for x in j]
    return j


def skeleton_inputs(H):
    """(name, source, builder, syms, assumptions, info) for every skeleton the front end accepts:
    builder() gives the elaborated term with symbolic literals."""
    replay = H.get_replay()
    for name, src, ranges in SKELETONS:
        r = replay.call({"op": "pipeline", "source": src, "run": False})
        if r.get("stage") != "done":
            H.inconclusive.append("skeleton %s is not accepted by the front end: %s" % (name, r.get("err")))
            continue
        syms, assumptions = {}, []
        sj = symbolize(r["term"], syms, ranges, assumptions)
        yield name, src, (lambda sj=sj, syms=syms: build_symbolic(sj, syms, {}, {})), syms, assumptions, (lambda m, sj=sj, syms=syms, name=name: {"t": instantiate(sj, m, syms), "skeleton": name})


def cells_for_source(cells, syms):
    """Hole contents for the parsed term: omitted annotations are holes the checker solved; the
    big-step reference never looks inside an annotation, so leaving them unsolved is fine."""
    return {k: None for k in cells}


def run_skeletons(H, quick):
    if H.worker:
        return
    replay = H.get_replay()
    for name, src, ranges in SKELETONS:
        r = replay.call({"op": "pipeline", "source": src, "run": False})
        if r.get("stage") != "done":
            H.inconclusive.append("skeleton %s is not accepted by the front end: %s" % (name, r.get("err")))
            continue
        syms, assumptions = {}, []
        sj = symbolize(r["term"], syms, ranges, assumptions)
        # the SOURCE program as parsed (before elaboration): what the semantics prescribes is the
        # value of this term; `gram run` evaluates the elaborated one (S-C02-03: an elaboration that
        # silently changes an operator)
        pj = symbolize(r["parsed"], syms, ranges, assumptions) if r.get("parsed") else None
        cells = {k: symbolize(v, syms, ranges, assumptions) if v is not None else None for k, v in r["cells"].items()}
        ex, it = H.engine(assumptions=assumptions, solver_timeout_ms=120000)
        ex.fuel = 200000
        it.max_call_depth = 3000

        def body(ex):
            it.call_depth = 0
            cell_objs = {}
            tv = build_symbolic(sj, syms, {}, cell_objs)
            info = lambda m: {"t": instantiate(sj, m, syms), "skeleton": name, "source": src,
                              "literals": {str(k): str(T.mval(m, v)) for k, v in syms.items()}}
            try:
                res = it.resolve(it.call("evaluator", "evaluate", [tv]))
            except FuelExhausted:
                ex.count("fuel")
                return
            bs = BigStep(ex, None, fuel=20000)
            try:
                src_term = tv
                if pj is not None:
                    try:
                        src_term = build_symbolic(pj, syms, cells_for_source(cells, syms), {})
                    except Exception:
                        src_term = tv
                ref = bs.eval(src_term, [])
                ref_kind = "value"
            except Stuck:
                ref, ref_kind = None, "stuck"
            except OutOfFuel:
                ex.count("fuel")
                return
            real_kind = "value" if res.variant == "Ok" else "stuck"
            ex.count(real_kind)
            ex.check(real_kind == ref_kind, "E0.outcome (real %s, reference %s)" % (real_kind, ref_kind), info=info)
            if real_kind == "value" and ref_kind == "value":
                g = ground(ex, res.fields[0])
                rg = bs.ground(ref)
                if g[0] != rg[0]:
                    ex.check(False, "E1.value-kind", info=info)
                elif g[0] == "lit":
                    ex.check(z_eq(g[1], rg[1]), "E1.integer-value", info=info)
                else:
                    ex.check(g[1] == rg[1], "E1.value-constructor", info=info)
        t0 = time.time()
        ex.explore(body)
        H.absorb("skeleton " + name, ex)
        H.log("skeleton %-28s %d paths %s, %d obligations, %d discharged, %.1fs" % (
            name, ex.stats.paths, dict(ex.counters), ex.stats.obligations, ex.stats.discharged, time.time() - t0))
        if len(H.samples) < 12:
            H.samples.append({"part": "skeleton", "name": name, "source": src, "symbolic_literals": len(syms), "paths": ex.stats.paths})
        handle_violations(H, ex)


def confirm_evaluate(H, label, case):
    replay = H.get_replay()
    r = replay.call({"op": "steps", "term": case["t"], "cells": {}, "limit": 5000})
    if "term" not in r:
        return True, "compiled evaluate failed: %s" % (r,)
    if r["exhausted"]:
        return False, "compiled evaluation did not finish within 5000 steps"
    cx = ConcreteCtx()
    tv = T.from_json(case["t"])
    bs = BigStep(cx, None, fuel=20000)
    try:
        ref = bs.eval(tv, [])
        rk = "value"
    except Stuck:
        rk = "stuck"
        ref = None
    except OutOfFuel:
        return False, "reference did not finish"
    real_kind = "value" if r["is_value"] else "stuck"
    if real_kind != rk:
        return True, "program %s: compiled code ends %s at %s, reference says %s" % (T.show(case["t"]), real_kind, r["shown"], rk)
    if rk == "value":
        g = ground(cx, T.from_json(r["term"]))
        rg = bs.ground(ref)
        same = g[0] == rg[0] and (concrete_truth(z_eq(g[1], rg[1])) if g[0] == "lit" else g[1] == rg[1])
        if not same:
            return True, "program %s: compiled value %s, reference value %s" % (T.show(case["t"]), r["shown"], rg)
    return False, "compiled code agrees with the reference on this program"


if __name__ == "__main__":
    run_main(main)
