"""C03 -- the type checker never accepts an ill-typed program.

type_checker::type_check (with unify, normalize_weak_head, syntactically_equal, open, shifts) is
executed by path forking on every closed parser-shaped term within a node budget (holes included,
hole cells tracked per path); whenever it accepts with all holes resolved, the elaborated term is
judged by an independent reference checker and the reported type compared up to conversion."""
import json
import os
import sys
import time

import z3

sys.path.insert(0, os.path.dirname(os.path.dirname(os.path.abspath(__file__))))

from gramsym.harness import Harness, run_main
from gramsym import inputs as I, terms as T
from gramsym.values import (Adt, Struct, TupleV, VecV, Str, Union, none, some, z_and, z_or, z_not, z_eq, InternalError)
from gramsym.explorer import PathAbort, FuelExhausted, Frame
from gramsym.interp import PanicEx
from gramsym.refcheck import RefChecker, Reject, RefUnknown
from gramsym.lawlib import ConcreteCtx, empty_model, concrete_truth
from gramsym.termgen import random_program
from gramsym.parallel import parallel_explore
import tc_common as TC

PID = "C03"


def validate(H, n, label="validate.type_check"):
    """Concrete differential: interpreter vs compiled code on random closed programs."""
    if H.worker:
        return
    replay = H.get_replay()
    ex, it = H.engine()
    ex.frames.append(Frame(ex._new_solver()))
    em = empty_model()
    bad = 0
    kinds = {"ok": 0, "err": 0}
    for i in range(n):
        ex.fuel_left = 10 ** 6
        it.call_depth = 0
        tj, cells = random_program(H.rng, depth=H.rng.randint(2, 4), holes=(i % 3 != 0))
        cell_objs = {}
        tv = T.from_json(tj, cells, cell_objs)
        try:
            res, tctx, dctx = TC.call_type_check(it, tv)
        except FuelExhausted:
            continue
        exp = TC.native_type_check(replay, {"t": tj, "cells": cells})
        if "crash" in exp or "timeout" in exp:
            continue
        if res.variant == "Ok":
            kinds["ok"] += 1
            conc = T.Concretizer(ex, em)
            e, ty = res.fields[0]
            gj = [conc.term(e), conc.term(ty)]
            got = T.canon(T.inline_cells(gj, conc.cells_table()))
            if "ok" not in exp:
                bad += 1
                H.mismatches.append({"label": label, "case": {"t": tj, "cells": cells}, "detail": "interpreter accepts, compiled rejects: %s" % exp.get("err")})
                continue
            want = T.canon(T.inline_cells([exp["ok"]["term"], exp["ok"]["type"]], exp["cells"]))
            if got != want:
                bad += 1
                H.mismatches.append({"label": label, "case": {"t": tj, "cells": cells}, "detail": "elaboration differs: interpreter %s compiled %s" % (json.dumps(got)[:600], json.dumps(want)[:600])})
        else:
            kinds["err"] += 1
            if "err" not in exp:
                bad += 1
                H.mismatches.append({"label": label, "case": {"t": tj, "cells": cells}, "detail": "interpreter rejects, compiled accepts"})
            elif len(exp["err"]) != len(res.fields[0]):
                bad += 1
                H.mismatches.append({"label": label, "case": {"t": tj, "cells": cells}, "detail": "number of errors differs: %d vs %d" % (len(res.fields[0]), len(exp["err"]))})
        H.validated += 1
    ex.frames.pop()
    H.functions |= ex.functions_executed
    H.log("encoder validation: %d random programs through interpreter and compiled type_check (%s), %d disagreements" % (H.validated, kinds, bad))


def make_factory(H, budget, alphabet, fuel, obligations):
    def make():
        ex, it = H.engine(node_budget=budget - 1, solver_timeout_ms=120000)
        ex.fuel = fuel
        it.max_call_depth = 600
        sp = TC.ProgramSpace("p", budget, alphabet, scope=0)
        root = sp.root()

        def body(ex):
            it.call_depth = 0
            try:
                obligations(ex, it, root)
            except PanicEx as p:
                # a panic of the real code on a well-formed input is a violation for every property
                ex.check(False, "PANIC %s (%s.rs:%s)" % (p.msg, p.module, p.line), info=lambda m: TC.input_case(ex, m, root))
        return ex, body, None
    return make


def native_panic(H, case):
    """Does any stage of the compiled pipeline panic (or crash) on this program?"""
    replay = H.get_replay()
    r = TC.native_type_check(replay, case, run=False)
    if "panic" in r or "crash" in r:
        return True, "compiled type_check: %s" % (r.get("panic") or r.get("crash"))
    if "ok" in r:
        for op in ("normalize_weak_head", "evaluate"):
            cmd = {"op": op, "term": r["ok"]["term"], "cells": r["cells"]}
            if op == "normalize_weak_head":
                cmd["defs_ctx"] = []
            x = replay.call(cmd)
            if "panic" in x:
                return True, "compiled %s panics on the elaborated program %s: %s" % (op, r["ok"]["term_shown"], x["panic"])
    cd = replay.call({"op": "check_definitions", "term": case["t"], "cells": case.get("cells", {}), "depth": 0, "source": ""})
    if "panic" in cd:
        return True, "compiled check_definitions panics: %s" % cd["panic"]
    return False, "no stage of the compiled pipeline panics on %s" % T.show(case["t"], case.get("cells"))


def c03_obligations(ex, it, root, ref_fuel=3000):
    info = lambda m: dict(TC.input_case(ex, m, root), events=[k for k, _ in ex.f.events])
    try:
        res, tctx, dctx = TC.call_type_check(it, root)
    except FuelExhausted:
        ex.count("fuel")
        return
    if res.variant == "Err":
        ex.count("rejected")
        if len(res.fields[0]) == 0:
            ex.check(False, "A2.rejected-without-diagnostic", info=info)
        return
    e, ty = res.fields[0]
    rc = RefChecker(ex, TC.concretize_ctor, fuel=ref_fuel)
    try:
        tref = rc.infer(e, [])
        same = rc.conv(ty, tref, [])
    except Reject as r:
        ex.count("accepted")
        ex.check(False, "A0.accepted-but-ill-typed%s: %s" % (" [in an annotation]" if "annotation" in r.roles else "", r.why), info=info)
        return
    except RefUnknown as u:
        ex.count("outside:" + u.why)
        return
    ex.count("accepted")
    if not same:
        ex.check(False, "A1.reported-type-not-convertible", info=info)
    else:
        ex.check(True, "A0.accepted-and-well-typed")
    if len(ex.samples) < 3 and ex.stats.paths % 41 == 0:
        m = ex.path_model()
        if m is not None:
            c = TC.input_case(ex, m, root)
            ex.samples.append({"program": T.show(c["t"], c["cells"]), "verdict": "accepted"})


GROUP_LEAVES = ["Variable", "Integer", "Type", "IntegerLiteral", "Unifier"]


def group_families(H, quick, obligations):
    """Definition groups whose members are leaves: forward references, type aliases, omitted
    annotations -- the part of the quantifier a plain node budget does not reach."""
    fams = [("groups of 2 leaf definitions (forward type aliases, omitted annotations)", ["Let2"], 6)]
    if not quick:
        fams.append(("groups of 3 leaf definitions", ["Let3"], 8))
    out = []
    for name, roots, budget in fams:
        alpha = (lambda roots: (lambda n: roots if n.depth == 1 else GROUP_LEAVES))(roots)
        out.append((name, make_factory(H, budget, alpha, 1200, lambda ex, it, root: obligations(ex, it, root, ref_fuel=250))))
    for name, alpha, budget in TC.interplay_families(True, "AFCE" if quick else "ABFCDE"):
        out.append((name, make_factory(H, budget, alpha, 4000, lambda ex, it, root: obligations(ex, it, root, ref_fuel=400))))
    return out


def confirm(H, label, case):
    replay = H.get_replay()
    r = TC.native_type_check(replay, case)
    if "ok" not in r:
        if label.startswith("A2"):
            return ("err" in r and len(r["err"]) == 0), "compiled result: %s" % (r,)
        return False, "the compiled checker rejects this program: %s" % (str(r.get("err"))[:300],)
    cx = ConcreteCtx()
    cell_objs = {}
    e = T.from_json(r["ok"]["term"], r["cells"], cell_objs)
    ty = T.from_json(r["ok"]["type"], r["cells"], cell_objs)
    verdict = TC.ref_judge(cx, e)
    shown = "program %s elaborated to %s : %s" % (T.show(case["t"], case.get("cells")), r["ok"]["term_shown"], r["ok"]["type_shown"])
    if verdict[0] == "reject":
        if ("[in an annotation]" in label) != ("annotation" in verdict[3]):
            return False, "%s; rejected natively for a different reason (%s)" % (shown, verdict[1])
        return True, "%s; the reference checker rejects the elaborated term: %s" % (shown, verdict[1])
    if verdict[0] == "unknown":
        return False, "%s; reference cannot judge (%s)" % (shown, verdict[1])
    rc = verdict[2]
    try:
        if not rc.conv(ty, verdict[1], []):
            return True, "%s; the reference type is not convertible with the reported one" % shown
    except RefUnknown as u:
        return False, "reference cannot compare types (%s)" % u.why
    return False, "%s; the reference accepts it with a convertible type" % shown


def classify(label, case):
    """Attribute a reproduced violation to a listed finding by the role of the failing rule."""
    if "[in an annotation]" in label:
        return "C03-annotation-unchecked"
    if "open_fresh_hole" in case.get("events", []):
        return "hole-copied-by-open"
    return None


def handle(H, records, confirm_fn=None, classify_fn=None, cap=4):
    confirm_fn = confirm_fn or confirm
    classify_fn = classify_fn or classify
    seen = {}
    for label, case, trace in records:
        lab = label
        n = seen.get(lab, 0)
        if n >= cap:
            continue
        seen[lab] = n + 1
        if label.startswith("PANIC") and "t" in case:
            reproduced, detail = native_panic(H, case)
        else:
            reproduced, detail = confirm_fn(H, label, case)
        H.report(label, case, reproduced, detail, finding=classify_fn(label, case) if reproduced else None)


def main():
    H = Harness(PID)
    quick = H.tier == "quick"
    if H.args.replay:
        with open(H.args.replay) as fh:
            rec = json.load(fh)
        reproduced, detail = confirm(H, rec["label"], rec["case"])
        print(("REPRODUCED: " if reproduced else "NOT REPRODUCED: ") + detail)
        return 1 if reproduced else 0
    validate(H, 150 if quick else 800)
    budget = 4 if quick else 5
    parts = [("type_check B(%d) with holes" % budget, make_factory(H, budget, TC.WITH_HOLES, 60000, c03_obligations))]
    parts += group_families(H, quick, c03_obligations) if not os.environ.get("SKIPFAM") else []
    only = os.environ.get("C03_PARTS")
    if only:
        parts = [p for i, p in enumerate(parts) if str(i) in only.split(",")]
    for name, mk in parts:
        t0 = time.time()
        m = parallel_explore(mk, H.jobs)
        H.absorb_merged(name, m)
        H.log("%s: %d paths %s, %d obligations, %d discharged, %d workers, %.1fs" % (
            name, m.stats.get("paths", 0), m.counters, m.stats.get("obligations", 0), m.stats.get("discharged", 0), m.workers, time.time() - t0))
        handle(H, m.violations)
    H.bounds.update({"programs": "all closed parser-shaped terms (holes allowed, groups <= 2 definitions) with at most %d nodes" % budget,
                     "outside": "larger programs; results with unresolved holes; reference out of fuel"})
    H.assumptions += ["inputs satisfy the parser-output invariants (closed, hole shifts as the parser sets them, group body is not a group)",
                      "definitional equality ignores lambda parameter annotations (as the property's companion C06 states)"]
    return H.finish()


if __name__ == "__main__":
    run_main(main)
