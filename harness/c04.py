"""C04 -- a program's value inhabits the type reported for the program.

Pipeline by path forking on closed parser-shaped programs: type_check -> Ok((e, T)); evaluate(e) ->
Ok(v) within fuel; then the reference checker must give v a type convertible with T.  In particular
T = int implies v is a literal, bool implies true/false, a function type implies a lambda, type implies
a type former (these follow from the reference typing of values and are asserted separately)."""
import json
import os
import sys
import time

import z3

sys.path.insert(0, os.path.dirname(os.path.dirname(os.path.abspath(__file__))))

from gramsym.harness import Harness, run_main
from gramsym import inputs as I, terms as T
from gramsym.values import (Adt, Struct, TupleV, VecV, Str, Union, none, some, z_and, z_or, z_not, z_eq, InternalError)
from gramsym.explorer import PathAbort, FuelExhausted, Frame
from gramsym.refcheck import RefChecker, Reject
from gramsym.refs import RefUnknown
from gramsym.lawlib import ConcreteCtx, empty_model, concrete_truth
from gramsym.parallel import parallel_explore
from gramsym.interp import PanicEx
import tc_common as TC
import c03
import c01

PID = "C04"
KIND = {"Integer": ("IntegerLiteral",), "Boolean": ("True", "False"), "Pi": ("Lambda",),
        "Type": ("Type", "Integer", "Boolean", "Pi")}


def obligations(ex, it, root):
    info = lambda m: dict(TC.input_case(ex, m, root), events=[k for k, _ in ex.f.events])
    try:
        res, _, _ = TC.call_type_check(it, root)
    except FuelExhausted:
        ex.count("fuel")
        return
    if res.variant != "Ok":
        ex.count("rejected")
        return
    e, ty = res.fields[0]
    try:
        ev = it.resolve(it.call("evaluator", "evaluate", [e]))
    except FuelExhausted:
        ex.count("still-running")
        return
    if ev.variant != "Ok":
        ex.count("stuck")     # C01's subject
        return
    v = ev.fields[0]
    ex.count("value")
    rc = RefChecker(ex, TC.concretize_ctor, fuel=2500)
    try:
        tv = rc.infer(v, [])
        same = rc.conv(tv, ty, [])
        head, _ = rc.view(rc.whnf(ty, []), holes_ok=True)
        vhead, _ = rc.view(v, holes_ok=True)
    except Reject as r:
        ex.check(False, "V0.value-is-ill-typed: " + r.why, info=info)
        return
    except RefUnknown as u:
        ex.count("outside:" + u.why)
        return
    if not same:
        ex.check(False, "V1.value-does-not-have-the-reported-type", info=info)
        return
    ex.check(True, "V1.value-has-the-reported-type")
    if head in KIND:
        ex.check(vhead in KIND[head], "V2.value-kind (type %s, value %s)" % (head, vhead), info=info)
    if len(ex.samples) < 2 and ex.stats.paths % 23 == 0:
        m = ex.path_model()
        if m is not None:
            c = TC.input_case(ex, m, root)
            ex.samples.append({"program": T.show(c["t"], c["cells"]), "type head": head, "value head": vhead})


def confirm(H, label, case):
    replay = H.get_replay()
    r = TC.native_type_check(replay, case, run=True)
    shown = "program %s" % T.show(case["t"], case.get("cells"))
    if "ok" not in r:
        return False, "%s is rejected natively" % shown
    run = r["ok"]["run"]
    if not run or "ok" not in run:
        return False, "%s does not evaluate to a value natively" % shown
    cx = ConcreteCtx()
    cell_objs = {}
    v = T.from_json(run["ok"], r["cells"], cell_objs)
    ty = T.from_json(r["ok"]["type"], r["cells"], cell_objs)
    rc = RefChecker(cx, None, fuel=4000)
    desc = "%s : %s evaluates to %s" % (shown, r["ok"]["type_shown"], run["shown"])
    try:
        tv = rc.infer(v, [])
        same = rc.conv(tv, ty, [])
        head, _ = rc.view(rc.whnf(ty, []), holes_ok=True)
        vhead, _ = rc.view(v, holes_ok=True)
    except Reject as rj:
        return True, "%s, which is ill typed: %s" % (desc, rj.why)
    except RefUnknown as u:
        return False, "reference cannot judge: %s" % u.why
    if not same:
        return True, "%s, whose type is not convertible with the reported type" % desc
    if head in KIND and vhead not in KIND[head]:
        return True, "%s: a %s where the type %s promises one of %s" % (desc, vhead, head, KIND[head])
    return False, "%s and the value has that type" % desc


def classify(label, case):
    if "open_fresh_hole" in case.get("events", []):
        return "hole-copied-by-open"
    return None


def main():
    H = Harness(PID)
    quick = H.tier == "quick"
    if H.args.replay:
        with open(H.args.replay) as fh:
            rec = json.load(fh)
        reproduced, detail = confirm(H, rec["label"], rec["case"])
        print(("REPRODUCED: " if reproduced else "NOT REPRODUCED: ") + detail)
        return 1 if reproduced else 0
    c03.validate(H, 120 if quick else 600)
    budget = 4 if quick else 5
    parts = [("type_check -> evaluate -> type of the value, B(%d) with holes" % budget, c03.make_factory(H, budget, TC.WITH_HOLES, 40000, obligations)),
             ("the same on groups of 2 definitions over leaves, sums, calls, lambdas", c01.make_family(H, 2, quick))]
    # the family factory runs C01's obligations by default: wrap it for this property
    def fam():
        ex, body, _ = c01.make_family(H, 2, quick)()
        return ex, body, None
    parts[1] = ("the same on groups of 2 definitions over leaves, sums, calls, lambdas", family_factory(H, quick))
    for name, alpha, b in TC.interplay_families(True, "ACE" if quick else "ABFCDE"):
        parts.append((name, c03.make_factory(H, b, alpha, 6000, obligations)))
    only = os.environ.get("C04_PARTS")
    if only:
        parts = [p for i, p in enumerate(parts) if str(i) in only.split(",")]
    for name, mk in parts:
        t0 = time.time()
        m = parallel_explore(mk, H.jobs)
        H.absorb_merged(name, m)
        H.log("%s: %d paths %s, %d obligations, %d discharged, %d workers, %.1fs" % (
            name, m.stats.get("paths", 0), m.counters, m.stats.get("obligations", 0), m.stats.get("discharged", 0), m.workers, time.time() - t0))
        c03.handle(H, m.violations, confirm_fn=confirm, classify_fn=classify)
    H.bounds.update({"programs": "closed parser-shaped programs of at most %d nodes with holes; groups of 2 definitions over leaves, sums, calls and lambdas" % budget,
                     "outside": "results with unresolved holes, evaluation beyond fuel, larger programs"})
    return H.finish()


def family_factory(H, quick):
    alpha = c01.order_family(2, quick)

    def make():
        ex, it = H.engine(solver_timeout_ms=120000)
        ex.fuel = 4000
        it.max_call_depth = 600
        sp = TC.ProgramSpace("p", 3, alpha, scope=0)
        root = sp.root()

        def body(ex):
            it.call_depth = 0
            try:
                obligations(ex, it, root)
            except PanicEx as p:
                ex.check(False, "PANIC %s (%s.rs:%s)" % (p.msg, p.module, p.line), info=lambda m: TC.input_case(ex, m, root))
        return ex, body, None
    return make


if __name__ == "__main__":
    run_main(main)
