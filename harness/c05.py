"""C05 -- fully annotated well-typed programs are accepted; elaboration only fills holes.

(1) every closed, hole-free, fully annotated program within the bound that the *reference* checker
    accepts is run through the real type_check: it must terminate within fuel, accept, and report a
    type convertible with the reference type;
(2) every program (holes allowed) that the real checker accepts: the elaborated term is the source
    term, node for node (same formers, scalars, names, ranges, and the very same hole cells)."""
import json
import os
import sys
import time

import z3

sys.path.insert(0, os.path.dirname(os.path.dirname(os.path.abspath(__file__))))

from gramsym.harness import Harness, run_main
from gramsym import inputs as I, terms as T
from gramsym.values import (Adt, Struct, TupleV, VecV, Str, Union, none, some, z_and, z_or, z_not, z_eq, InternalError)
from gramsym.explorer import PathAbort, FuelExhausted, Frame
from gramsym.refcheck import RefChecker, Reject
from gramsym.refs import RefUnknown
from gramsym.lawlib import ConcreteCtx, empty_model, concrete_truth
from gramsym.parallel import parallel_explore
import tc_common as TC
import c03

PID = "C05"
SAME = T.EqOpts(names=True, source_ranges=True)


def accept_obligations(ex, it, root, ref_fuel=2500):
    info = lambda m: TC.input_case(ex, m, root)
    rc = RefChecker(ex, TC.concretize_ctor, fuel=ref_fuel)
    try:
        tref = rc.infer(root, [])
    except Reject:
        ex.count("ill-typed")
        return
    except RefUnknown as u:
        ex.count("outside:" + u.why)
        return
    ex.count("well-typed")
    try:
        res, _, _ = TC.call_type_check(it, root)
    except FuelExhausted:
        ex.check(False, "E1.checker-does-not-terminate-on-well-typed-program", info=info)
        return
    if res.variant != "Ok":
        ex.check(False, "E0.well-typed-program-rejected", info=info)
        return
    e, ty = res.fields[0]
    try:
        same = rc.conv(ty, tref, [])
    except RefUnknown as u:
        # the reference ran out of fuel on the *reported* type: if the expected type alone
        # normalises easily, the reported type is the one that does not
        rc2 = RefChecker(ex, TC.concretize_ctor, fuel=2500)
        try:
            rc2.conv(tref, tref, [])
        except RefUnknown:
            ex.count("outside:" + u.why)
            return
        ex.check(False, "E2.reported-type-does-not-normalise", info=info)
        return
    if not same:
        ex.check(False, "E2.reported-type-not-convertible-with-expected", info=info)
    else:
        ex.check(True, "E2.type-ok")
    ex.check(T.term_eq(ex, e, root, SAME), "E3.elaboration-rewrites-the-program", info=info)
    # the checker's own conversion must agree: the reported type unifies with the expected one
    # (this runs the real normaliser on types that mention definition groups)
    if same:
        try:
            wn = rc.whnf(tref, [])     # the expected type in weak-head normal form (reference)
            u = it.truth(it.call("unifier", "unify", [ty, wn, VecV()]))
            ex.check(u, "E4.reported-type-does-not-unify-with-expected", info=info)
        except FuelExhausted:
            ex.count("fuel")
        except RefUnknown:
            pass
    if len(ex.samples) < 2 and ex.stats.paths % 31 == 0:
        m = ex.path_model()
        if m is not None:
            ex.samples.append({"well-typed program": T.show(TC.input_case(ex, m, root)["t"])})


def elaboration_obligations(ex, it, root):
    info = lambda m: TC.input_case(ex, m, root)
    try:
        res, _, _ = TC.call_type_check(it, root)
    except FuelExhausted:
        ex.count("fuel")
        return
    if res.variant != "Ok":
        ex.count("rejected")
        return
    ex.count("accepted")
    e, ty = res.fields[0]
    ex.check(T.term_eq(ex, e, root, SAME), "E3.elaboration-rewrites-the-program", info=info)


def confirm(H, label, case):
    replay = H.get_replay()
    r = TC.native_type_check(replay, case)
    shown = "program %s" % T.show(case["t"], case.get("cells"))
    cx = ConcreteCtx()
    cell_objs = {}
    src = T.from_json(case["t"], case.get("cells", {}), cell_objs)
    if label.startswith("E3"):
        if "ok" not in r:
            return False, "%s is rejected natively" % shown
        a = T.canon(T.inline_cells(r["ok"]["term"], r["cells"]))
        # compare with the source modulo cell contents: holes must be the same occurrences
        def strip(j):
            if isinstance(j, dict):
                return {k: strip(v) for k, v in j.items() if k != "content"}
            if isinstance(j, list):
                return [strip(x) for x in j]
            return j
        b = T.canon(T.inline_cells(case["t"], case.get("cells", {})))
        return (strip(a) != strip(b)), "%s elaborates to %s" % (shown, r["ok"]["term_shown"])
    verdict = TC.ref_judge(cx, src)
    if verdict[0] != "ok":
        return False, "%s is not accepted by the reference (%s)" % (shown, verdict[1])
    if "crash" in r or "timeout" in r:
        return True, "%s is well typed (reference) but the compiled checker does not terminate normally: %s" % (shown, r)
    if label.startswith("E1"):
        return False, "%s: the compiled checker terminates (%s)" % (shown, "accepts" if "ok" in r else "rejects")
    if "ok" not in r:
        if label.startswith("E0"):
            return True, "%s is well typed (reference) but rejected: %s" % (shown, str(r.get("err"))[:300])
        return False, "rejected natively"
    if label.startswith("E0"):
        return False, "%s is accepted natively" % shown
    if label.startswith("E4"):
        exp = T.Concretizer(cx, empty_model()).term(verdict[2].whnf(verdict[1], []))
        u = replay.call({"op": "unify", "a": r["ok"]["type"], "b": exp, "defs_ctx": [], "cells": r["cells"]}, timeout=20)
        bad = ("panic" in u) or ("crash" in u) or ("timeout" in u) or (u.get("result") is False)
        return bad, "%s: compiled unify(reported type %s, expected type %s) = %s" % (shown, r["ok"]["type_shown"], T.show(exp), u.get("result", u.get("panic", u)))
    ty = T.from_json(r["ok"]["type"], r["cells"], cell_objs)
    if "does-not-normalise" in label:
        # ask the compiled code to compare the reported type with the expected one
        exp = T.Concretizer(cx, empty_model()).term(verdict[1])
        u = replay.call({"op": "unify", "a": r["ok"]["type"], "b": exp, "defs_ctx": [], "cells": r["cells"]}, timeout=20)
        if "crash" in u or "timeout" in u:
            return True, "%s: comparing the reported type %s with the expected type %s makes the compiled unifier %s" % (
                shown, r["ok"]["type_shown"], T.show(exp), "crash (stack overflow)" if "crash" in u else "run forever")
        return (u.get("result") is False), "%s: unify(reported, expected) = %s" % (shown, u.get("result"))
    try:
        same = verdict[2].conv(ty, verdict[1], [])
    except RefUnknown as u:
        return False, "reference cannot compare the types (%s)" % u.why
    return (not same), "%s: reported type %s, reference type %s" % (shown, r["ok"]["type_shown"], T.show(T.Concretizer(cx, empty_model()).term(verdict[1])))


def classify(label, case):
    return None


def main():
    H = Harness(PID)
    quick = H.tier == "quick"
    if H.args.replay:
        with open(H.args.replay) as fh:
            rec = json.load(fh)
        reproduced, detail = confirm(H, rec["label"], rec["case"])
        print(("REPRODUCED: " if reproduced else "NOT REPRODUCED: ") + detail)
        return 1 if reproduced else 0
    c03.validate(H, 120 if quick else 600)
    budget = 4 if quick else 5
    leaves = [c for c in c03.GROUP_LEAVES if c != "Unifier"]
    parts = [("well-typed annotated programs B(%d) are accepted" % budget, c03.make_factory(H, budget, TC.HOLE_FREE, 40000, accept_obligations)),
             ("annotated groups of 2 leaf definitions (forward type aliases)", c03.make_factory(
                 H, 6, lambda n: ["Let2"] if n.depth == 1 else leaves, 1200, lambda ex, it, root: accept_obligations(ex, it, root, ref_fuel=250))),
             ("elaboration only fills holes B(%d)" % budget, c03.make_factory(H, budget, TC.WITH_HOLES, 40000, elaboration_obligations))]
    parts.append(("annotated groups of 3 leaf definitions", c03.make_factory(
        H, 8, lambda n: ["Let3"] if n.depth == 1 else leaves, 1200, lambda ex, it, root: accept_obligations(ex, it, root, ref_fuel=250))))
    for name, alpha, b in TC.interplay_families(False, "AFCEJ" if quick else "ABFCDEJ"):
        parts.append(("annotated: " + name, c03.make_factory(H, b, alpha, 4000, lambda ex, it, root: accept_obligations(ex, it, root, ref_fuel=400))))
    only = os.environ.get("C05_PARTS")
    if only:
        parts = [p for i, p in enumerate(parts) if str(i) in only.split(",")]
    for name, mk in parts:
        t0 = time.time()
        m = parallel_explore(mk, H.jobs)
        H.absorb_merged(name, m)
        H.log("%s: %d paths %s, %d obligations, %d discharged, %d workers, %.1fs" % (
            name, m.stats.get("paths", 0), m.counters, m.stats.get("obligations", 0), m.stats.get("discharged", 0), m.workers, time.time() - t0))
        c03.handle(H, m.violations, confirm_fn=confirm, classify_fn=classify)
    H.bounds.update({"programs": "closed parser-shaped programs of at most %d nodes (groups <= 2 definitions), plus all groups of 2 and of 3 leaf definitions" % budget,
                     "outside": "larger programs, reference out of fuel"})
    H.assumptions += ["'well typed' is judged by the reference checker of gramsym/refcheck.py"]
    return H.finish()


if __name__ == "__main__":
    run_main(main)
