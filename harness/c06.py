"""C06 -- the definitional equality used by the checker agrees with evaluation.

Executed by path forking over the real normalizer::normalize_weak_head, unifier::unify,
equality::syntactically_equal, evaluator::{evaluate, step} and type_checker::type_check:
(A) every closed hole-free program within the node budget that the checker accepts: if its type is
    int or bool and running it yields a literal, normalising it the way the checker does yields the
    same literal; and the program unifies with each of its first three reducts;
(B) hole-free pairs: unify(a,b) = unify(b,a), and unify(a,b) iff the reference normaliser finds the
    same normal form (lambda annotations ignored), for pairs the reference checker accepts at the
    same type (and, as a stronger side condition reported separately, for all pairs);
(C) every hole-free term unifies with itself under every context."""
import json
import os
import sys
import time

import z3

sys.path.insert(0, os.path.dirname(os.path.dirname(os.path.abspath(__file__))))

from gramsym.harness import Harness, run_main
from gramsym import inputs as I, terms as T
from gramsym.values import (Adt, Struct, TupleV, VecV, Str, Union, none, some, z_and, z_or, z_not, z_eq, is_sym, InternalError)
from gramsym.explorer import PathAbort, FuelExhausted, Frame
from gramsym.interp import PanicEx
from gramsym.refcheck import RefChecker, Reject, Entry
from gramsym.refs import RefUnknown
from gramsym.lawlib import ConcreteCtx, empty_model, concrete_truth, split_option
from gramsym.parallel import parallel_explore
import tc_common as TC
import c03
import c12

PID = "C06"


def lit_or_bool(ex, t):
    vs = T.views(ex, t)
    if len(vs) != 1:
        return None
    _, ct, adt = vs[0]
    if ct == "IntegerLiteral":
        return ("lit", adt.fields[0].v)
    if ct in ("True", "False"):
        return ("bool", ct)
    return ("other", ct)


def make_programs(H, budget):
    def make():
        ex, it = H.engine(node_budget=budget - 1, solver_timeout_ms=120000)
        ex.fuel = 60000
        it.max_call_depth = 600
        sp = TC.ProgramSpace("p", budget, TC.HOLE_FREE, scope=0)
        root = sp.root()

        def body(ex):
            try:
                return body2(ex)
            except PanicEx as p:
                ex.check(False, "PANIC %s (%s.rs:%s)" % (p.msg, p.module, p.line), info=lambda m: TC.input_case(ex, m, root))

        def body2(ex):
            it.call_depth = 0
            info = lambda m: TC.input_case(ex, m, root)
            try:
                res, _, _ = TC.call_type_check(it, root)
            except FuelExhausted:
                ex.count("fuel")
                return
            if res.variant != "Ok":
                ex.count("rejected")
                return
            e, ty = res.fields[0]
            ex.count("accepted")
            # (A1) ground programs: evaluation and checker normalisation agree
            try:
                tyn = it.call("normalizer", "normalize_weak_head", [ty, VecV()])
                kind = lit_or_bool(ex, tyn)
                if kind is not None and kind[0] == "other" and kind[1] in ("Integer", "Boolean"):
                    ev = it.resolve(it.call("evaluator", "evaluate", [e]))
                    if ev.variant == "Ok":
                        v = lit_or_bool(ex, ev.fields[0])
                        n = lit_or_bool(ex, it.call("normalizer", "normalize_weak_head", [e, VecV()]))
                        ex.count("ground-evaluated")
                        if v is not None and v[0] == "lit":
                            ex.check(n is not None and n[0] == "lit" and z_eq(n[1], v[1]), "A1.normal-form-equals-value(int)", info=info)
                        elif v is not None and v[0] == "bool":
                            ex.check(n is not None and n == v, "A1.normal-form-equals-value(bool)", info=info)
            except FuelExhausted:
                ex.count("fuel")
                return
            # (A2) the program is convertible with its reducts
            cur = e
            for k in range(3):
                try:
                    some_, nxt = split_option(it.resolve(it.call("evaluator", "step", [cur])))
                except FuelExhausted:
                    break
                if not some_ or nxt is None:
                    break
                try:
                    u = it.truth(it.call("unifier", "unify", [e, nxt, VecV()]))
                except FuelExhausted:
                    ex.count("fuel")
                    break
                ex.check(u, "A2.program-unifies-with-reduct-%d" % (k + 1), info=info)
                cur = nxt
            if len(ex.samples) < 2 and ex.stats.paths % 29 == 0:
                m = ex.path_model()
                if m is not None:
                    ex.samples.append({"program": T.show(TC.input_case(ex, m, root)["t"])})
        return ex, body, None
    return make


FORMERS = [c for c in I.ALL_HOLE_FREE if I.ARITY[c] > 0 and c not in ("Let2", "Let3")]
FORMERS_QUICK = ["Lambda", "Pi", "Application", "Let1", "Negation", "Sum", "Quotient", "LessThan", "If"]
PAIR_LEAVES = ["Variable", "IntegerLiteral"]


class GroupPairSpace(c12.HoleSpace):
    """Groups of 1 or 2 definitions over leaves: slot 2 is the body of a 1-definition group and the
    second annotation of a 2-definition group (restricted when the root is decided)."""

    def on_decided(self, node, new, ex):
        if node.depth == 1:
            if new == frozenset(["Let2"]):
                ex.restrict(node.kid(2), frozenset(["Integer"]))
            elif new == frozenset(["Let1"]):
                ex.restrict(node.kid(2), frozenset(["Variable", "IntegerLiteral"]))


def group_pair_alpha(node):
    # x : int = 1; y : int = 2; y   against   x : int = 1; x   (S-C06-02: groups of different size)
    if node.depth == 1:
        return ["Let1", "Let2"]
    if node.slot == 0:
        return ["Integer"]
    if node.slot == 2:
        return ["Integer", "Variable", "IntegerLiteral"]
    if node.slot in (1, 3):
        return ["IntegerLiteral"]          # closed definitions: the index-wise comparison is what is exercised
    return ["IntegerLiteral", "Variable"]


def make_pairs(H, ka, kb, family=False, formers=None, groups=False, leaves=None):
    alpha = [c for c in TC.HOLE_FREE if c not in ("Let2",)]
    if groups:
        family = True
    if family:
        # every former over leaves, on both sides: equal and unequal operands under binders and in
        # contexts; different formers fail at the root, so the cost is the same-former pairs
        fs = formers or FORMERS
        alpha = lambda n: fs if n.depth == 1 else (leaves or PAIR_LEAVES)

    def make():
        ex, it = H.engine(node_budget=None if family else ka + kb - 2, solver_timeout_ms=120000)
        ex.fuel = 40000
        it.max_call_depth = 500
        sa = (GroupPairSpace("a", 2, group_pair_alpha, 0) if groups else c12.HoleSpace("a", 2 if family else ka, alpha, 0))
        sb = (GroupPairSpace("b", 2, group_pair_alpha, 0) if groups else c12.HoleSpace("b", 2 if family else kb, alpha, 0))
        a, b = sa.root(), sb.root()

        def body(ex):
            it.call_depth = 0
            gam, ctx_ref = c12.gamma_options(ex)
            sa.scope = len(gam)
            sb.scope = len(gam)
            before = list(gam)
            info = lambda m: c12.case_of(ex, m, (a, b), before)
            try:
                ab = it.truth(it.call("unifier", "unify", [a, b, gam]))
                ba = it.truth(it.call("unifier", "unify", [b, a, gam]))
            except FuelExhausted:
                ex.count("fuel")
                return
            except PanicEx as p:
                # A template node under a *possible* binder may carry an index that is out of scope
                # once its ancestor turns out not to bind: unify's precondition (well-scoped terms) is
                # then violated by the harness, not by gram.  A panic on a well-scoped pair is reported.
                m = ex.path_model()
                case = c12.case_of(ex, m, (a, b), before) if m is not None else None
                import c01
                scoped = False
                if case is not None:
                    acc = set()
                    c01.j_free(case["a"], 0, acc)
                    c01.j_free(case["b"], 0, acc)
                    scoped = all(v < len(before) for v in acc)
                if scoped:
                    ex.check(False, "PANIC %s (%s.rs:%s)" % (p.msg, p.module, p.line), info=info)
                else:
                    ex.count("outside:ill-scoped pair (precondition of unify)")
                return
            if len(gam) != len(before):
                ex.check(False, "B3.context-restored-by-unify", info=info)
                return
            ex.check(ab == ba, "B1.unify-symmetric (ab=%s, ba=%s)" % (ab, ba), info=info)
            rc = RefChecker(ex, TC.concretize_ctor, fuel=1500)
            try:
                same = rc.conv(a, b, ctx_ref)
            except RefUnknown as u:
                ex.count("outside:" + u.why)
                return
            ex.count("equal" if same else "different")
            ex.check(ab == same, "B2.unify-iff-same-normal-form (unify=%s, reference=%s)" % (ab, same), info=info)
            ex.check(len(gam) == len(before), "B3.context-restored-by-unify", info=info)
        return ex, body, None
    return make


def run_skeletons(H):
    """A1 on program skeletons (recursion, mutual recursion, local groups, a recursive definition that
    uses a later sibling), every literal symbolic: the checker's normaliser and the evaluator compute
    the same literal."""
    if H.worker:
        return
    import c02
    for name, src, build, syms, assumptions, info in c02.skeleton_inputs(H):
        ex, it = H.engine(assumptions=assumptions, solver_timeout_ms=120000)
        ex.fuel = 200000
        it.max_call_depth = 3000

        def body(ex, build=build, info=info):
            it.call_depth = 0
            tv = build()
            try:
                ev = it.resolve(it.call("evaluator", "evaluate", [tv]))
                if ev.variant != "Ok":
                    ex.count("stuck")
                    return
                v = lit_or_bool(ex, ev.fields[0])
                n = lit_or_bool(ex, it.call("normalizer", "normalize_weak_head", [build(), VecV()]))
            except FuelExhausted:
                ex.count("fuel")
                return
            except PanicEx as p:
                ex.check(False, "PANIC %s (%s.rs:%s)" % (p.msg, p.module, p.line), info=info)
                return
            if v is not None and v[0] == "lit":
                ex.count("int")
                ex.check(n is not None and n[0] == "lit" and z_eq(n[1], v[1]), "A1.normal-form-equals-value(int)", info=info)
            elif v is not None and v[0] == "bool":
                ex.count("bool")
                ex.check(n is not None and n == v, "A1.normal-form-equals-value(bool)", info=info)
        t0 = time.time()
        ex.explore(body)
        H.absorb("skeleton " + name, ex)
        H.log("skeleton %-34s %d paths %s, %d obligations, %d discharged, %.1fs" % (name, ex.stats.paths, dict(ex.counters), ex.stats.obligations, ex.stats.discharged, time.time() - t0))
        for v in ex.violations[:2]:
            reproduced, detail = confirm_skeleton(H, v.label, v.info)
            H.report(v.label, v.info, reproduced, detail)


def confirm_skeleton(H, label, case):
    replay = H.get_replay()
    a = replay.call({"op": "steps", "term": case["t"], "cells": {}, "limit": 20000})
    b = replay.call({"op": "normalize_weak_head", "term": case["t"], "cells": {}, "defs_ctx": []})
    va = a.get("shown")
    vb = T.show(b["result"]) if b.get("result") else str(b)
    same = a.get("term") is not None and b.get("result") is not None and T.canon(a["term"], drop_sr=True, drop_names=True) == T.canon(b["result"], drop_sr=True, drop_names=True)
    return (not same), "skeleton %s: evaluate gives %s, normalize_weak_head gives %s" % (case.get("skeleton"), va, vb)


def make_group_programs(H, n):
    """Closed groups of n leaf definitions with a variable as body: run, normalise, compare."""
    def alpha(node):
        if node.depth == 1:
            return ["Let%d" % n]
        if node.slot == 2 * n:
            return ["Variable"]
        return ["Unifier", "Integer"] if node.slot % 2 == 0 else ["IntegerLiteral", "Variable", "True"]

    def make():
        ex, it = H.engine(solver_timeout_ms=120000)
        ex.fuel = 3000
        it.max_call_depth = 600
        sp = TC.ProgramSpace("p", 2, alpha, scope=0)
        root = sp.root()

        def body(ex):
            try:
                return body2(ex)
            except PanicEx as p:
                ex.check(False, "PANIC %s (%s.rs:%s)" % (p.msg, p.module, p.line), info=lambda m: TC.input_case(ex, m, root))

        def body2(ex):
            it.call_depth = 0
            info = lambda m: TC.input_case(ex, m, root)
            errs = VecV()
            it.call("parser", "check_definitions", [none(), Str(""), root, 0, errs])
            if len(errs):
                ex.count("rejected:order")
                return
            try:
                res, _, _ = TC.call_type_check(it, root)
            except FuelExhausted:
                ex.count("fuel")
                return
            if res.variant != "Ok":
                ex.count("rejected")
                return
            e, ty = res.fields[0]
            ex.count("accepted")
            try:
                ev = it.resolve(it.call("evaluator", "evaluate", [e]))
                if ev.variant != "Ok":
                    ex.count("stuck")
                    return
                v = lit_or_bool(ex, ev.fields[0])
                n_ = lit_or_bool(ex, it.call("normalizer", "normalize_weak_head", [e, VecV()]))
            except FuelExhausted:
                ex.count("fuel")
                return
            if v is not None and v[0] == "lit":
                ex.check(n_ is not None and n_[0] == "lit" and z_eq(n_[1], v[1]), "A1.normal-form-equals-value(int)", info=info)
            elif v is not None and v[0] == "bool":
                ex.check(n_ is not None and n_ == v, "A1.normal-form-equals-value(bool)", info=info)
        return ex, body, None
    return make


def confirm(H, label, case):
    replay = H.get_replay()
    if label.startswith("A"):
        r = TC.native_type_check(replay, case)
        if "ok" not in r:
            return False, "compiled checker rejects the program"
        e = r["ok"]["term"]
        cells = r["cells"]
        shown = "program %s" % r["ok"]["term_shown"]
        if label.startswith("A1"):
            ev = replay.call({"op": "evaluate", "term": e, "cells": cells})
            nf = replay.call({"op": "normalize_weak_head", "term": e, "defs_ctx": [], "cells": cells})
            if "ok" not in ev:
                return False, "%s does not evaluate to a value natively" % shown
            a = T.canon(ev["ok"], drop_sr=True)
            b = T.canon(nf.get("result"), drop_sr=True)
            return (a != b), "%s evaluates to %s, normalises to %s" % (shown, ev["shown"], T.show(nf["result"], nf.get("cells")) if nf.get("result") else nf)
        cur = e
        k = int(label.split("-")[-1].split(" ")[0])
        for i in range(k):
            st = replay.call({"op": "step", "term": cur, "cells": cells})
            if not st.get("result"):
                return False, "no reduct %d natively" % (i + 1)
            cur = st["result"]
        u = replay.call({"op": "unify", "a": e, "b": cur, "defs_ctx": [], "cells": cells})
        return (u.get("result") is False), "%s and its reduct %s: unify = %s" % (shown, T.show(cur, cells), u.get("result"))
    u1 = c12.native_unify(replay, case)
    u2 = c12.native_unify(replay, dict(case, a=case["b"], b=case["a"]))
    shown = "unify(%s, %s) in a context of %d" % (T.show(case["a"]), T.show(case["b"]), len(case["defs_ctx"]))
    if label.startswith("B1"):
        return (u1.get("result") != u2.get("result")), "%s = %s, swapped = %s" % (shown, u1.get("result"), u2.get("result"))
    if label.startswith("B3"):
        n1, n2 = len(u1.get("defs_ctx", [])), len(u2.get("defs_ctx", []))
        return (n1 != len(case["defs_ctx"]) or n2 != len(case["defs_ctx"])), "%s leaves a context of %d entries, swapped %d (was %d)" % (shown, n1, n2, len(case["defs_ctx"]))
    cx = ConcreteCtx()
    cell_objs = {}
    a = T.from_json(case["a"], case["cells"], cell_objs)
    b = T.from_json(case["b"], case["cells"], cell_objs)
    ctx_ref = []
    for i, e in enumerate(case["defs_ctx"]):
        ctx_ref.append(Entry(None, None, i) if e is None else Entry(None, T.from_json(e["term"], case["cells"], cell_objs), i + e["offset"]))
    rc = RefChecker(cx, None, fuel=3000)
    try:
        same = rc.conv(a, b, ctx_ref)
    except RefUnknown as u:
        return False, "reference cannot judge: %s" % u.why
    return (u1.get("result") != same), "%s = %s, reference normal forms equal: %s" % (shown, u1.get("result"), same)


def main():
    H = Harness(PID)
    quick = H.tier == "quick"
    if H.args.replay:
        with open(H.args.replay) as fh:
            rec = json.load(fh)
        fn = confirm_skeleton if "skeleton" in rec["case"] else confirm
        reproduced, detail = fn(H, rec["label"], rec["case"])
        print(("REPRODUCED: " if reproduced else "NOT REPRODUCED: ") + detail)
        return 1 if reproduced else 0
    c03.validate(H, 100 if quick else 500)
    c12.validate(H, 100 if quick else 500)
    budget = 4 if quick else 6
    pair = (2, 2) if quick else (3, 3)
    if quick:
        c12.GAMMAS[:] = [0, 3]
    parts = [("accepted programs B(%d): value = normal form, unify with reducts" % budget, make_programs(H, budget)),
             ("hole-free pairs %d+%d: symmetry and agreement with normal forms" % pair, make_pairs(H, *pair)),
             ("every former over leaves, both sides: symmetry, normal forms, context", make_pairs(H, 0, 0, family=True, formers=FORMERS_QUICK if quick else FORMERS)),
             ("pairs of groups of 1 or 2 leaf definitions (equal and different sizes): symmetry, normal forms", make_pairs(H, 0, 0, groups=True)),
             ("every arithmetic and comparison operator over variables, both sides (stuck operands: the structural rule)", make_pairs(H, 0, 0, family=True, formers=I.BINARY, leaves=["Variable"])),
             ("groups of 3 leaf definitions: value = normal form", make_group_programs(H, 3)),
             ("reflexivity, %d nodes" % (3 if quick else 5), c12.make_reflexive(H, 3 if quick else 5))]
    only = os.environ.get("C06_PARTS")
    if only:
        parts = [p for i, p in enumerate(parts) if str(i) in only.split(",")]
    if not only or "S" in only:
        run_skeletons(H)
    for name, mk in parts:
        t0 = time.time()
        m = parallel_explore(mk, H.jobs)
        H.absorb_merged(name, m)
        H.log("%s: %d paths %s, %d obligations, %d discharged, %d workers, %.1fs" % (
            name, m.stats.get("paths", 0), m.counters, m.stats.get("obligations", 0), m.stats.get("discharged", 0), m.workers, time.time() - t0))
        c03.handle(H, m.violations, confirm_fn=confirm, classify_fn=lambda l, c: None)
    H.bounds.update({"programs": "closed hole-free parser-shaped programs of at most %d nodes accepted by the real checker" % budget,
                     "pairs": "hole-free terms of at most %d+%d nodes under four definition contexts" % pair,
                     "outside": "larger terms, normalisation/evaluation beyond fuel"})
    H.assumptions += ["division by zero is stuck on both sides (neither reduces)"]
    return H.finish()


if __name__ == "__main__":
    run_main(main)
