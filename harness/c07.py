"""C07 -- the parser accepts exactly grammar.y and builds the tree it specifies.

Part A (tree shape): the real parser::reassociate_applications / _products_and_quotients /
_sums_and_differences, composed as in parse(), are executed symbolically (summarised and merged) on
the right-nested chains the packrat stage builds.  Chain shapes (lengths, which operands are
parenthesised sub-chains or tighter chains) are enumerated by forking; the operator of every link
(* or /, + or -), the `group` flag of every operand where the grammar leaves it free, all names and
all source positions are symbolic.  Oracle: flatten at un-grouped right links, fold to the left.
Obligations (slot by slot): the result is the left fold; every rebuilt node spans its operands.

Part C (grammar.y itself, no Rust involved): for every token string up to a length bound the
grammar admits at most one derivation -- posed to z3 as 'an ambiguous span exists' over symbolic
tokens, generated from /repo/grammar.y on every run.

Part B (recognition by the packrat functions against the grammar) is not claimed: see DESIGN.md."""
import json
import os
import re
import sys
import time

import z3

sys.path.insert(0, os.path.dirname(os.path.dirname(os.path.abspath(__file__))))

from gramsym.harness import Harness, run_main
from gramsym import pterms as P, terms as T
from gramsym.values import (Adt, Struct, TupleV, VecV, Str, Union, none, some, z_and, z_or, z_not, z_eq, z_ite, is_sym, InternalError)
from gramsym.explorer import PathAbort, FuelExhausted, Frame
from gramsym.lawlib import ConcreteCtx, empty_model, concrete_truth, implies
from gramsym.loader import REPO

PID = "C07"

LEVEL_OPS = {0: ["Application"], 1: ["Product", "Quotient"], 2: ["Sum", "Difference"]}


# -------------------------------------------------------------------------------------------------
# abstract syntax of what the user wrote: ("atom", i) | ("paren", S) | ("chain", level, [S...]) | ("neg", S)
def gen(ex, level, budget, reserve=0):
    """Choose, by forking, an expression whose outermost operator has precedence level <= `level`
    (level -1: an atom or a parenthesised expression).  budget[0] = atoms still available;
    `reserve` atoms must be left for operands that follow.  Every expression is produced once."""
    avail = budget[0] - reserve
    options = ["atom"]
    if avail >= 1 and budget[0] - reserve >= 1 and budget[1] > 0:
        options.append("paren")
    for l in range(0, level + 1):
        if avail >= 2:
            options.append(("chain", l))
    if level >= 1 and avail >= 2 and len(budget) > 2 and budget[2] > 0 and budget[1] > 0:
        options.append("neg")      # a unary minus over a parenthesised expression (S-C07-04)
    k = options[ex.choose(len(options))] if len(options) > 1 else options[0]
    if k == "atom":
        budget[0] -= 1
        return ("atom",)
    if k == "neg":
        budget[2] -= 1
        budget[1] -= 1
        return ("neg", ("paren", gen(ex, 2, budget, reserve)))
    if k == "paren":
        budget[1] -= 1
        inner = gen(ex, 2, budget, reserve)
        return ("paren", inner)
    l = k[1]
    nmax = min(4, avail)
    n = 2 + (ex.choose(nmax - 1) if nmax > 2 else 0)
    operands = []
    for i in range(n):
        operands.append(gen(ex, l - 1, budget, reserve + (n - 1 - i)))
    return ("chain", l, operands)


def gen_atom(ex, budget):
    budget[0] -= 1
    return ("atom",)


class Builder:
    """Builds, from the abstract expression, (a) the tree the packrat stage produces, (b) the tree
    the grammar specifies, with symbolic operators, positions and names."""

    def __init__(self):
        self.n = 0
        self.constraints = []
        self.pos = 0
        self.opvars = []
        self.paren_ranges = []

    def fresh_pos(self):
        # positions are concrete (token boundaries): the shape obligations do not depend on them
        p = self.pos
        self.pos += 1
        return p

    def build(self, s):
        """-> (packrat term, expected term, start, end)"""
        if s[0] == "atom":
            self.n += 1
            a, b = self.fresh_pos(), self.fresh_pos()
            t = P.pmk("Variable", ["v%d" % self.n], P.sr(a, b), False)
            return t, t, a, b
        if s[0] == "neg":
            m = self.fresh_pos()
            self.fresh_pos()
            pt, et, a, b = self.build(s[1])
            return P.pmk("Negation", [pt], P.sr(m, b), False), P.pmk("Negation", [et], P.sr(m, b), False), m, b
        if s[0] == "paren":
            lp = self.fresh_pos()
            lp_end = self.fresh_pos()
            pt, et, a, b = self.build(s[1])
            rp = self.fresh_pos()
            rp_end = self.fresh_pos()
            rng = P.sr(lp, rp_end)
            self.paren_ranges.append((lp, rp_end))
            e2 = self.regroup(et, rng)
            inner = et.fields["source_range"]
            e2.fields["allowed_ranges"] = [(inner.fields["start"], inner.fields["end"]), (lp, rp_end)] + et.fields.get("allowed_ranges", [])
            return self.regroup(pt, rng), e2, lp, rp_end
        _, level, operands = s
        built = [self.build(o) for o in operands]
        ops = []
        for i in range(len(built) - 1):
            self.fresh_pos()
            if len(LEVEL_OPS[level]) == 1:
                ops.append(None)
            else:
                v = z3.Bool("op%d" % len(self.opvars))
                self.opvars.append(v)
                ops.append(v)
        # packrat: right nested
        pt = built[-1][0]
        pend = built[-1][3]
        for i in range(len(built) - 2, -1, -1):
            pt = self.node(level, ops[i], built[i][0], pt, built[i][2], pend)
        # expected: left fold
        et = built[0][1]
        estart = built[0][2]
        for i in range(1, len(built)):
            et = self.node(level, ops[i - 1], et, built[i][1], estart, built[i][3])
        return pt, et, built[0][2], built[-1][3]

    def node(self, level, op, l, r, a, b):
        names = LEVEL_OPS[level]
        rng = P.sr(a, b)
        if op is None:
            return P.pmk(names[0], [l, r], rng, False)
        alts = [(z_not(op), Adt(P.PE, names[0], [l, r])), (op, Adt(P.PE, names[1], [l, r]))]
        return Struct(P.PTERM, {"source_range": rng, "group": False, "variant": Union(alts), "errors": VecV()})

    def regroup(self, t, rng):
        f = dict(t.fields)
        f["group"] = True
        f["source_range"] = rng
        return Struct(P.PTERM, f)


def variant_alts(v):
    if isinstance(v, Union):
        out = []
        for g, x in v.alts:
            for g2, y in variant_alts(x):
                out.append((z_and(g, g2), y))
        return out
    return [(True, v)]


def pterm_alts(t):
    """[(guard, Struct)] for a possibly merged parser term."""
    if isinstance(t, Union):
        out = []
        for g, x in t.alts:
            for g2, y in pterm_alts(x):
                out.append((z_and(g, g2), y))
        return out
    return [(True, t)]


def pterm_conjuncts(a, b, ctx, where, out, ranges=True):
    """a == b (ignoring `group` and `errors`) as a list of (context, formula, where)."""
    if a is b:
        return
    aa, bb = pterm_alts(a), pterm_alts(b)
    if len(aa) > 1 or len(bb) > 1:
        for ga, xa in aa:
            for gb, xb in bb:
                pterm_conjuncts(xa, xb, z_and(ctx, ga, gb), where, out, ranges)
        return
    a, b = aa[0][1], bb[0][1]
    if ranges:
        ra, rb = a.fields["source_range"], b.fields["source_range"]
        allowed = b.fields.get("allowed_ranges") or [(rb.fields["start"], rb.fields["end"])]
        out.append((ctx, z_or(*[z_and(veq(ra.fields["start"], x), veq(ra.fields["end"], y)) for x, y in allowed]), where + ".range"))
    va, vb = variant_alts(a.fields["variant"]), variant_alts(b.fields["variant"])
    # constructor agreement: for every alternative of a some alternative of b with the same constructor holds
    for ga, xa in va:
        same = [gb for gb, xb in vb if xb.variant == xa.variant]
        out.append((z_and(ctx, ga), z_or(*same), where + ".constructor"))
    for ga, xa in va:
        for gb, xb in vb:
            if xa.variant != xb.variant:
                continue
            c2 = z_and(ctx, ga, gb)
            if c2 is False:
                continue
            for i, (fa, fb) in enumerate(zip(xa.fields, xb.fields)):
                if isinstance(fa, (Struct, Union)) and (isinstance(fa, Union) or fa.name == P.PTERM):
                    pterm_conjuncts(fa, fb, c2, "%s.%s%d" % (where, xa.variant[:3], i), out, ranges)
                elif isinstance(fa, str) or isinstance(fb, str):
                    out.append((c2, veq(fa, fb), where + ".name"))


def veq(a, b):
    return T.veq(a, b)


CHAIN_OPS = ("Application", "Product", "Quotient", "Sum", "Difference")


def range_conjuncts(t, ctx, where, out, paren_ranges):
    """Every chain node of the result spans exactly its two operands (as they are in the result),
    or keeps the range of the parenthesised expression it was written as."""
    for g, x in pterm_alts(t):
        c = z_and(ctx, g)
        if c is False:
            continue
        rng = x.fields["source_range"]
        for gv, v in variant_alts(x.fields["variant"]):
            c2 = z_and(c, gv)
            if c2 is False or v.variant not in CHAIN_OPS:
                continue
            l, r = v.fields
            for gl, xl in pterm_alts(l):
                for gr, xr in pterm_alts(r):
                    c3 = z_and(c2, gl, gr)
                    if c3 is False:
                        continue
                    ls, re_ = xl.fields["source_range"].fields["start"], xr.fields["source_range"].fields["end"]
                    # gram is not consistent about whether a parenthesised operand is counted with its
                    # parentheses (DESIGN.md 5), so the obligation is containment: the node's range
                    # covers both operands as they are in the result
                    spans = z_and(rng.fields["start"] <= ls, rng.fields["end"] >= re_)
                    kept = z_or(*[z_and(veq(rng.fields["start"], a), veq(rng.fields["end"], b)) for a, b in paren_ranges])
                    out.append((c3, z_or(spans, kept), where + ".range"))
            range_conjuncts(l, c2, where + ".l", out, paren_ranges)
            range_conjuncts(r, c2, where + ".r", out, paren_ranges)


def run_reassociation(H, atoms, range_label=None):
    """range_label: instead of the shape obligations, require (under that label, used by C15) that the
    range of every chain node of the result COVERS its two operands as they are in the result, or is
    the range of the parenthesised expression it was written as."""
    ex, it = H.engine(solver_timeout_ms=120000)
    it.summarize_fns = {"reassociate_applications", "reassociate_products_and_quotients", "reassociate_sums_and_differences"}
    ex.fuel = 200000
    it.max_call_depth = 2000
    shapes = {"n": 0}

    def body(ex):
        it.call_depth = 0
        s = gen(ex, 2, [atoms, 2, 1])
        if s[0] == "atom":
            return
        b = Builder()
        pt, et, _, _ = b.build(s)
        for c in b.constraints:
            ex.add(c)
        shapes["n"] += 1
        r1 = it.call("parser", "reassociate_applications", [none(), pt])
        r2 = it.call("parser", "reassociate_products_and_quotients", [none(), r1])
        r3 = it.call("parser", "reassociate_sums_and_differences", [none(), r2])
        conj = []
        pterm_conjuncts(r3, et, True, "", conj, ranges=False)

        def info(m):
            return {"packrat": P.to_json(pick(pt, m), m), "expected": P.to_json(pick(et, m), m), "source": render(s, m, b)}
        if range_label is None:
            for ctx, f, where in conj:
                if f is True or ctx is False:
                    continue
                ex.check(implies(ctx, f), "A.left-fold" + (".range" if where.endswith(".range") else ".shape"), info=info)
        else:
            rconj = []
            range_conjuncts(r3, True, "", rconj, b.paren_ranges)
            for ctx, f, where in rconj:
                if ctx is False:
                    continue
                ex.check(True if f is True else implies(ctx, f), range_label, info=info)
        if len(ex.samples) < 4 and shapes["n"] % 17 == 1:
            m = ex.path_model()
            if m is not None:
                ex.samples.append({"source": render(s, m, b), "operators_symbolic": len(b.opvars)})

    t0 = time.time()
    ex.explore(body)
    H.absorb("re-association, expressions of <= %d operands" % atoms, ex)
    H.log("re-association (<= %d operands): %d chain shapes, %d summaries, %d obligations, %d discharged, %.1fs" % (
        atoms, shapes["n"], ex.stats.summaries, ex.stats.obligations, ex.stats.discharged, time.time() - t0))
    seen = set()
    for v in ex.violations:
        key = json.dumps(v.info["source"])
        if key in seen or len(seen) >= 4:
            continue
        seen.add(key)
        if range_label is not None:
            reproduced, detail = confirm_ranges(H, v.label, v.info)
        else:
            reproduced, detail = confirm(H, v.label, v.info)
        H.report(v.label, v.info, reproduced, detail)


def confirm_ranges(H, label, case):
    replay = H.get_replay()
    r = replay.call({"op": "reassociate", "which": "all", "term": case["packrat"]})
    if "result" not in r:
        return True, "compiled re-association failed on %s: %s" % (case["source"], r)
    bad = bad_ranges(r["result"], case["packrat"])
    return bool(bad), "`%s`: nodes of the re-associated tree whose range does not cover both operands (and is not a parenthesised range): %s" % (case["source"], bad[:2])


def pick(t, m):
    """Concrete alternative of a merged parser term under a model."""
    if isinstance(t, Union):
        for g, x in t.alts:
            if g is True or T.mval(m, g):
                return pick(x, m)
        raise InternalError("no alternative")
    if isinstance(t, Struct) and t.name == P.PTERM:
        f = dict(t.fields)
        v = f["variant"]
        while isinstance(v, Union):
            for g, x in v.alts:
                if g is True or T.mval(m, g):
                    v = x
                    break
            else:
                raise InternalError("no alternative")
        f["variant"] = Adt(v.enum, v.variant, [pick(x, m) if isinstance(x, (Struct, Union)) else x for x in v.fields])
        return Struct(t.name, f)
    return t


def render(s, m, b, counter=None):
    """Source text of the abstract expression under a model (operators from the model)."""
    counter = counter if counter is not None else {"atom": 0, "op": 0}
    if s[0] == "atom":
        counter["atom"] += 1
        return "v%d" % counter["atom"]
    if s[0] == "paren":
        return "(" + render(s[1], m, b, counter) + ")"
    if s[0] == "neg":
        return "-" + render(s[1], m, b, counter)
    _, level, operands = s
    parts = [render(operands[0], m, b, counter)]
    for o in operands[1:]:
        if len(LEVEL_OPS[level]) == 1:
            sym = " "
        else:
            v = b.opvars[counter["op"]]
            counter["op"] += 1
            second = T.mval(m, v)
            sym = {1: [" * ", " / "], 2: [" + ", " - "]}[level][1 if second else 0]
        parts.append(sym)
        parts.append(render(o, m, b, counter))
    return "".join(parts)


def confirm(H, label, case):
    """Replay on the compiled parser: the three re-association passes on the packrat tree, and the
    whole front end on the source text."""
    replay = H.get_replay()
    r = replay.call({"op": "reassociate", "which": "all", "term": case["packrat"]})
    if "result" not in r:
        return True, "compiled re-association failed on %s: %s" % (case["source"], r)
    if label.endswith(".range"):
        got = P.shape(r["result"], ranges=True)
        ok = range_ok(r["result"], case["expected"], case.get("allowed", {}))
        if ok:
            return False, "the ranges of the compiled result are as specified for %s" % case["source"]
        return True, "`%s` is parsed as %s with ranges that do not span the operands: %s" % (case["source"], P.show(r["result"]), json.dumps(got)[:400])
    got = P.shape(r["result"], ranges=False)
    want = P.shape(case["expected"], ranges=False)
    if got == want:
        return False, "the compiled code builds the expected tree for %s" % case["source"]
    return True, "`%s` is parsed as %s, the grammar specifies %s" % (case["source"], P.show(r["result"]), P.show(case["expected"]))


def range_ok(got, exp, allowed):
    """Ranges of the compiled tree against the expected tree (same shape assumed): a node must have
    the expected range, or -- if the expression was parenthesised -- the range without the parentheses."""
    if got["v"] != exp["v"]:
        return True
    if got["sr"] != exp["sr"]:
        inner = [k["sr"] for k in exp.get("kids", [])]
        alt = [inner[0][0], inner[-1][1]] if inner else None
        if got["sr"] != alt:
            return False
    return all(range_ok(a, b, allowed) for a, b in zip(got.get("kids", []), exp.get("kids", [])))


def bad_ranges(j, packrat):
    kept = set()

    def collect(x):
        if x.get("group"):
            kept.add(tuple(x["sr"]))
        for k in x.get("kids", []):
            collect(k)
    collect(packrat)
    out = []

    def walk(x):
        if x["v"] in CHAIN_OPS:
            l, r = x["kids"]
            want = [l["sr"][0], r["sr"][1]]
            if not (x["sr"][0] <= l["sr"][0] and x["sr"][1] >= r["sr"][1]) and tuple(x["sr"]) not in kept:
                out.append((P.show(x), x["sr"], want))
        for k in x.get("kids", []):
            walk(k)
    walk(j)
    return out


# -------------------------------------------------------------------------------------------------
# Part C: unambiguity of grammar.y
def read_grammar():
    txt = open(os.path.join(REPO, "grammar.y")).read()
    txt = re.sub(r"/\*.*?\*/", "", txt, flags=re.S)
    tokens = re.findall(r"%token\s+(\w+)", txt)
    body = txt.split("%%")[1]
    rules = {}
    for m in re.finditer(r"(\w+)\s*:\s*(.*?)(?=\n\w+\s*:|\Z)", body, flags=re.S):
        name = m.group(1)
        alts = [a.strip() for a in m.group(2).replace(";", "").split("|")]
        rules[name] = [[] if a in ("%empty", "") else a.split() for a in alts]
    return tokens, rules


def inline_empty(rules):
    """Remove epsilon productions by inlining (only let_annotation has one)."""
    nullable = [n for n, alts in rules.items() if [] in alts]
    for n in nullable:
        rules[n] = [a for a in rules[n] if a]
    changed = {}
    for name, alts in rules.items():
        new = []
        for a in alts:
            variants = [[]]
            for sym in a:
                if sym in nullable:
                    variants = [v + [sym] for v in variants] + [list(v) for v in variants]
                else:
                    variants = [v + [sym] for v in variants]
            for v in variants:
                if v and v not in new:
                    new.append(v)
        changed[name] = new
    return changed


def run_grammar(H, maxlen):
    tokens, rules = read_grammar()
    rules = inline_empty(rules)
    nts = list(rules)
    tok_id = {t: i for i, t in enumerate(tokens)}
    # order nonterminals so that unit productions A -> B have B earlier
    order = []
    visiting = set()

    def visit(n):
        if n in order:
            return
        if n in visiting:
            raise InternalError("cyclic unit productions at %s" % n)
        visiting.add(n)
        for a in rules[n]:
            if len(a) == 1 and a[0] in rules:
                visit(a[0])
        visiting.discard(n)
        order.append(n)
    for n in nts:
        visit(n)
    t0 = time.time()
    total_q = 0
    stats = {"obligations": 0, "discharged": 0, "sat": 0, "solver_time": 0.0, "solver_checks": 0, "paths": 0, "decisions": 0}
    for n in range(1, maxlen + 1):
        tk = [z3.Int("t%d" % i) for i in range(n)]
        s = z3.Solver()
        for t in tk:
            s.add(t >= 0, t < len(tokens))
        D = {}      # (A, i, j) -> Bool expr: A derives tokens[i:j]
        AMB = {}    # (A, i, j) -> Bool expr: A derives tokens[i:j] in more than one way

        def der(sym, i, j):
            if sym in rules:
                return D.get((sym, i, j), False)
            return (tk[i] == tok_id[sym]) if j == i + 1 else False

        def amb(sym, i, j):
            if sym in rules:
                return AMB.get((sym, i, j), False)
            return False

        def splits(rhs, i, j):
            """All ways to split tokens[i:j] among the symbols of rhs (each gets >= 1 token)."""
            k = len(rhs)
            if k == 1:
                yield [(i, j)]
                return
            for m in range(i + 1, j - (k - 1) + 1):
                for rest in splits(rhs[1:], m, j):
                    yield [(i, m)] + rest
        for length in range(1, n + 1):
            for i in range(0, n - length + 1):
                j = i + length
                for A in order:
                    ways = []   # (valid formula, child-ambiguity formula)
                    for rhs in rules[A]:
                        if len(rhs) > length:
                            continue
                        for sp in splits(rhs, i, j):
                            valid = z_and(*[der(sym, a, b) for sym, (a, b) in zip(rhs, sp)])
                            if valid is False:
                                continue
                            child = z_or(*[amb(sym, a, b) for sym, (a, b) in zip(rhs, sp)])
                            ways.append((valid, child))
                    if not ways:
                        continue
                    dv = z3.Bool("D_%s_%d_%d" % (A, i, j))
                    av = z3.Bool("A_%s_%d_%d" % (A, i, j))
                    s.add(dv == z_or(*[w for w, _ in ways]))
                    two = []
                    for x in range(len(ways)):
                        for y in range(x + 1, len(ways)):
                            two.append(z_and(ways[x][0], ways[y][0]))
                    s.add(av == z_or(*(two + [z_and(w, c) for w, c in ways if c is not False])))
                    D[(A, i, j)] = dv
                    AMB[(A, i, j)] = av
        root = AMB.get(("term", 0, n), False)
        stats["obligations"] += 1
        stats["solver_checks"] += 1
        t1 = time.time()
        if root is False:
            r = z3.unsat
        else:
            r = s.check(root)
        stats["solver_time"] += time.time() - t1
        if r == z3.unsat:
            stats["discharged"] += 1
        elif r == z3.sat:
            stats["sat"] += 1
            m = s.model()
            sentence = [tokens[m.eval(t, model_completion=True).as_long()] for t in tk]
            H.report("C.grammar-ambiguous", {"tokens": sentence}, True, "grammar.y gives two derivations to: %s" % " ".join(sentence))
        else:
            H.inconclusive.append("grammar unambiguity at length %d: solver answered unknown" % n)
        # sanity (vacuity guard): some sentence of this length exists
        if n in (1, 3, 5):
            ok = s.check(D.get(("term", 0, n), z3.BoolVal(False)))
            if ok != z3.sat:
                H.inconclusive.append("vacuity: the encoding derives no sentence of length %d" % n)
        stats["paths"] += 1
        stats["decisions"] += len(D)
    stats["exhaustive"] = True
    H.parts["grammar.y unambiguous up to %d tokens" % maxlen] = stats
    H.log("grammar.y: %d nonterminals, %d token kinds; no sentence of length <= %d has two derivations (%d queries, %.1fs)" % (
        len(nts), len(tokens), maxlen, stats["obligations"], time.time() - t0))
    H.samples.append({"part": "C", "query": "exists t_1..t_n: term derives t_1..t_n in two different ways", "lengths": list(range(1, maxlen + 1))})


def validate(H, n):
    """Encoder validation: concrete chains through the interpreter and the compiled re-association."""
    if H.worker:
        return
    replay = H.get_replay()
    bad = 0
    for i in range(n):
        ex, it = H.engine()
        ex.frames.append(Frame(ex._new_solver()))
        ex.fuel_left = 10 ** 6
        ex.eval_left = 10 ** 8
        ex.split_depth = None
        # a random concrete expression: reuse the generator with random choices
        rng = H.rng
        ex.choose = lambda k: rng.randrange(k)
        s = gen(ex, 2, [rng.randint(2, 6), 2])
        if s[0] == "atom":
            ex.frames.pop()
            continue
        b = Builder()
        pt, et, _, _ = b.build(s)
        sol = z3.Solver()
        for c in b.constraints:
            sol.add(c)
        for v in b.opvars:
            sol.add(v == bool(rng.getrandbits(1)))
        sol.check()
        m = sol.model()
        pj = P.to_json(pick(pt, m), m)
        conc = from_pjson(pj)
        r1 = it.call("parser", "reassociate_applications", [none(), conc])
        r2 = it.call("parser", "reassociate_products_and_quotients", [none(), r1])
        r3 = it.call("parser", "reassociate_sums_and_differences", [none(), r2])
        got = P.shape(P.to_json(r3, empty_model()), ranges=True, groups=True)
        exp = replay.call({"op": "reassociate", "which": "all", "term": pj})
        if "result" not in exp or got != P.shape(exp["result"], ranges=True, groups=True):
            bad += 1
            H.mismatches.append({"label": "validate.reassociate", "case": pj, "detail": "interpreter %s, compiled %s" % (got, exp)})
        H.validated += 1
        H.functions |= ex.functions_executed
        ex.frames.pop()
    H.log("encoder validation: %d concrete chains through interpreter and compiled re-association, %d disagreements" % (H.validated, bad))


def from_pjson(j):
    rng = P.sr(j["sr"][0], j["sr"][1])
    c = j["v"]
    if c == "Variable":
        return P.pmk(c, [j["name"]], rng, j.get("group", False))
    return P.pmk(c, [from_pjson(k) for k in j["kids"]], rng, j.get("group", False))


FAMILIES = {
    "binders and arrows": ["LeftParen", "RightParen", "LeftCurly", "RightCurly", "Identifier", "Colon", "ThickArrow", "ThinArrow", "Type"],
    "definitions": ["Identifier", "Equals", "Colon", "Semicolon", "LineBreak", "IntegerLiteral", "Plus", "LeftParen", "RightParen"],
    "operators": ["Identifier", "IntegerLiteral", "Plus", "Minus", "Asterisk", "Slash", "LessThan", "DoubleEquals", "LeftParen", "RightParen"],
    "conditionals": ["If", "Then", "Else", "True", "Identifier", "LeftParen", "RightParen", "ThickArrow"],
}


def run_conformance(H, quick, want_b3=False):
    """Part B: the packrat functions on symbolic token sequences against grammar.y."""
    import parse_common as PC
    import c09
    import c03
    from gramsym.parallel import parallel_explore
    PC.validate_parser(H, 30 if quick else 150)
    first, last = c09.first_last()
    g = PC.Grammar()
    ob = PC.conformance_obligations(g, want_b3=want_b3, want_b12=True)
    nfull = int(os.environ.get("C07_N", "0")) or (3 if quick else 4)
    nfam = int(os.environ.get("C07_NF", "0")) or (5 if quick else 6)
    runs = [("all %d token kinds, %d tokens" % (len(PC.K.KINDS), n), n, None) for n in range(1, nfull + 1)]
    for fam, alpha in FAMILIES.items():
        for n in range(nfull + 1, nfam + 1):
            runs.append(("family '%s' (%d kinds), %d tokens" % (fam, len(alpha), n), n, alpha))
    for name, n, alpha in runs:
        t0 = time.time()
        m = parallel_explore(PC.parser_factory(H, n, ob, first, last, alphabet=alpha), H.jobs)
        H.absorb_merged("B: " + name, m)
        H.log("B: %s: %d paths %s, %d obligations, %d discharged, %d workers, %.1fs" % (
            name, m.stats.get("paths", 0), m.counters, m.stats.get("obligations", 0), m.stats.get("discharged", 0), m.workers, time.time() - t0))
        c03.handle(H, m.violations, confirm_fn=PC.confirm_conformance, classify_fn=lambda l, c: None)
    return "every token sequence of 1..%d tokens over all token kinds; sequences of %d..%d tokens over the families %s" % (
        nfull, nfull + 1, nfam, "; ".join("%s = {%s}" % (k, " ".join(v)) for k, v in FAMILIES.items()))


def main():
    H = Harness(PID)
    quick = H.tier == "quick"
    if H.args.replay:
        with open(H.args.replay) as fh:
            rec = json.load(fh)
        if rec["label"].startswith("B"):
            import parse_common as PC
            reproduced, detail = PC.confirm_conformance(H, rec["label"], rec["case"])
        else:
            reproduced, detail = confirm(H, rec["label"], rec["case"])
        print(("REPRODUCED: " if reproduced else "NOT REPRODUCED: ") + detail)
        return 1 if reproduced else 0
    parts = os.environ.get("C07_PARTS", "ABC")
    # parts A and C are single-process: a parallel worker of part B must not repeat them
    if "A" in parts and not H.worker:
        validate(H, 60 if quick else 300)
        run_reassociation(H, 4 if quick else 5)
    if "C" in parts and not H.worker:
        run_grammar(H, 6 if quick else 8)
    nb = run_conformance(H, quick) if "B" in parts else "not run"
    H.bounds.update({"A": "expressions with at most %d operands over application, * /, + - and parentheses; operators, group flags, names and positions symbolic" % (4 if quick else 5),
                     "C": "token strings of length <= %d over the 28 token kinds" % (6 if quick else 8),
                     "B": nb,
                     "outside": "token strings longer than the bounds of part B; longer chains; formers other than the three chain levels inside chains"})
    H.assumptions += ["the right-nested input trees are built as the packrat functions build them (span of first to last token, group flag on parenthesised terms only)"]
    return H.finish()


if __name__ == "__main__":
    run_main(main)
