"""C08 -- every variable occurrence is bound to the right binder.

The real parser::resolve_variables (with collect_definitions) is executed by path forking on
pre-resolution syntax trees whose *names are symbolic*: every binder and every occurrence carries a
symbolic name drawn from {_, a, b, c}, and the initial context holds 0-2 symbolic names.  Tree
skeletons (all binding formers, groups of 1-3 definitions, groups nested in annotations, definitions
and bodies, sibling scopes) are enumerated by forking within a node budget; which names coincide is
decided by the solver on each path.  Oracle: an independent named-scope resolver.
Obligations: errors are reported iff the reference finds an unbound name or a re-binding, one per
offence, each carrying the offending identifier's own range; on success every index is the
reference's, `_` occurrences are fresh holes of shift 0, omitted annotations are holes of shift
len-i, the name->depth map handed in is unchanged, and the output satisfies the parser-output
invariants."""
import json
import os
import sys
import time

import z3

sys.path.insert(0, os.path.dirname(os.path.dirname(os.path.abspath(__file__))))

from gramsym.harness import Harness, run_main
from gramsym import pterms as P, terms as T
from gramsym.values import (Adt, Struct, TupleV, VecV, Str, Union, CellV, none, some, z_and, z_or, z_not, z_eq, is_sym, InternalError)
from gramsym.explorer import PathAbort, FuelExhausted, Frame
from gramsym.interp import MapV, PanicEx
from gramsym.lawlib import ConcreteCtx, empty_model, concrete_truth
from gramsym.parallel import parallel_explore

PID = "C08"
NAMES = ["_", "a", "b"]


class SymName:
    """A name whose identity is a symbolic integer in [0, len(NAMES)); 0 is the placeholder `_`."""
    __slots__ = ("id",)

    def __init__(self, id_):
        self.id = id_

    def sym_eq(self, it, other):
        if isinstance(other, SymName):
            return z_eq(self.id, other.id)
        if isinstance(other, str):
            return z_eq(self.id, NAMES.index(other)) if other in NAMES else False
        return False

    def concrete(self, model):
        v = self.id if isinstance(self.id, int) else T.mval(model, self.id)
        return NAMES[v]

    def __repr__(self):
        return "Name(%s)" % (self.id,)


class Gen:
    """Builds a syntax-tree skeleton by forking; names and literal values stay symbolic."""

    def __init__(self, ex, budget, quick):
        self.ex = ex
        self.budget = budget
        self.n = 0
        self.names = []
        self.quick = quick

    def name(self):
        v = z3.Int("n%d" % len(self.names))
        self.names.append(v)
        self.ex.add(z3.And(v >= 0, v < len(NAMES)))
        return SymName(v)

    def rng(self):
        self.n += 1
        return P.sr(2 * self.n, 2 * self.n + 1)

    def svar(self):
        return P.svar(self.name(), self.rng())

    def term(self, reserve=0):
        """A syntax tree using at most budget - reserve nodes (reserve: nodes promised to siblings)."""
        ex = self.ex
        avail = self.budget - reserve
        self.budget -= 1
        opts = ["var"]
        if avail >= 2:
            opts += ["lam"]
        if avail >= 3:
            opts += ["lamd", "pi", "app", "let"]
            if not self.quick:
                opts.append("sum")
        if avail >= 4:
            opts.append("leta")
        k = opts[ex.choose(len(opts))] if len(opts) > 1 else opts[0]
        r = self.rng()
        if k == "var":
            return P.pmk("Variable", [self.name()], r)
        if k == "lam":
            return P.pmk("Lambda", [self.svar(), False, none(), self.term(reserve)], r)
        if k == "lamd":
            return P.pmk("Lambda", [self.svar(), False, some(self.term(reserve + 1)), self.term(reserve)], r)
        if k == "pi":
            return P.pmk("Pi", [self.svar(), False, self.term(reserve + 1), self.term(reserve)], r)
        if k == "app":
            return P.pmk("Application", [self.term(reserve + 1), self.term(reserve)], r)
        if k == "sum":
            return P.pmk("Sum", [self.term(reserve + 1), self.term(reserve)], r)
        # let: variable, optional annotation, definition, body (a body that is a let is the next definition)
        # whether the let was written in parentheses is symbolic: it must make no difference to
        # scoping (a parenthesised group in body position still joins the enclosing group; S-C16-04)
        self.ngroup = getattr(self, "ngroup", 0) + 1
        grp = z3.Bool("grp%d" % self.ngroup)
        if k == "leta":
            return P.pmk("Let", [self.svar(), some(self.term(reserve + 2)), self.term(reserve + 1), self.term(reserve)], r, grp)
        return P.pmk("Let", [self.svar(), none(), self.term(reserve + 1), self.term(reserve)], r, grp)


# -------------------------------------------------------------------------------------------------
# reference: named scopes
class RefResolver:
    def __init__(self, ex):
        self.ex = ex
        self.errors = []        # (kind, range start)
        self.holes = 0

    def same(self, a, b):
        e = a.sym_eq(None, b)
        return e if isinstance(e, bool) else self.ex.branch(e)

    def is_placeholder(self, n):
        return self.same(n, "_")

    def lookup(self, env, name):
        for nm, d in reversed(env):
            if self.same(nm, name):
                return d
        return None

    def bind_check(self, env, sv):
        """Re-binding a name that is in scope is an error; `_` never binds.  Returns True if the
        name is to be added."""
        name = sv.fields["name"]
        if self.is_placeholder(name):
            return False
        if self.lookup(env, name) is not None:
            self.errors.append(("rebind", sv.fields["source_range"].fields["start"]))
        return True

    def resolve(self, t, depth, env):
        v = t.fields["variant"]
        c, f = v.variant, v.fields
        rng = some(t.fields["source_range"])
        if c == "Variable":
            d = self.lookup(env, f[0])
            if d is None:
                if not self.is_placeholder(f[0]):
                    self.errors.append(("unbound", t.fields["source_range"].fields["start"]))
                self.holes += 1
                return T.unifier(CellV("ref%d" % self.holes, content=none()), 0, rng)
            return T.var(f[0], depth - 1 - d, rng)
        if c in ("Lambda", "Pi"):
            if c == "Lambda":
                dom = self.resolve(f[2].fields[0], depth, env) if f[2].variant == "Some" else None
            else:
                dom = self.resolve(f[2], depth, env)
            add = self.bind_check(env, f[0])
            env2 = env + [(f[0].fields["name"], depth)] if add else env
            body = self.resolve(f[3], depth + 1, env2)
            if dom is None:
                self.holes += 1
                dom = T.unifier(CellV("ref%d" % self.holes, content=none()), 0, none())
            return T.mk(c, [f[0].fields["name"], f[1], dom, body], rng)
        if c == "Let":
            defs = []
            cur = t
            while cur.fields["variant"].variant == "Let":
                g = cur.fields["variant"].fields
                defs.append((g[0], g[1], g[2]))
                cur = g[3]
            n = len(defs)
            env2 = list(env)
            for i, (sv, _, _) in enumerate(defs):
                if self.bind_check(env2, sv):
                    env2 = env2 + [(sv.fields["name"], depth + i)]
            out = []
            for i, (sv, ann, d) in enumerate(defs):
                if ann.variant == "Some":
                    a = self.resolve(ann.fields[0], depth + n, env2)
                else:
                    self.holes += 1
                    a = T.unifier(CellV("ref%d" % self.holes, content=none()), n - i, none())
                out.append((sv.fields["name"], a, self.resolve(d, depth + n, env2)))
            return T.let(out, self.resolve(cur, depth + n, env2), rng)
        kids = [self.resolve(x, depth, env) for x in f]
        return T.mk(c, kids, rng)


def invariants(ex, t, depth, problems, top=True):
    """Parser-output invariants of a resolved term (concrete shape)."""
    v = t.fields["variant"]
    c, f = v.variant, v.fields
    if c == "Variable":
        if not isinstance(f[1], int) or f[1] >= depth or f[1] < 0:
            problems.append("index %s not bound at depth %d" % (f[1], depth))
        if t.fields["source_range"].variant != "Some":
            problems.append("variable without source range")
    elif c in ("Lambda", "Pi"):
        invariants(ex, f[2], depth, problems, False)
        invariants(ex, f[3], depth + 1, problems, False)
    elif c == "Let":
        n = len(f[0])
        for i, d in enumerate(f[0]):
            av = d[1].fields["variant"]
            if av.variant == "Unifier" and d[1].fields["source_range"].variant == "None" and av.fields[1] != n - i:
                problems.append("omitted annotation %d of %d has shift %s" % (i, n, av.fields[1]))
            invariants(ex, d[1], depth + n, problems, False)
            invariants(ex, d[2], depth + n, problems, False)
        if f[1].fields["variant"].variant == "Let":
            problems.append("the body of a group is a group")
        invariants(ex, f[1], depth + n, problems, False)
    elif c == "Unifier":
        pass
    else:
        for x in f:
            if isinstance(x, Struct):
                invariants(ex, x, depth, problems, False)


def make_factory(H, budget, quick):
    def make():
        ex, it = H.engine(solver_timeout_ms=120000)
        ex.fuel = 20000
        it.max_call_depth = 800

        def body(ex):
            it.call_depth = 0
            g = Gen(ex, budget, quick)
            nctx = ex.choose(3)
            ctx_names = [g.name() for _ in range(nctx)]
            for i in range(nctx):
                ex.add(ctx_names[i].id != 0)
                for j in range(i):
                    ex.add(ctx_names[i].id != ctx_names[j].id)
            term = g.term()
            context = MapV()
            for i, nm in enumerate(ctx_names):
                context.items.append([nm, i])
            before = [list(kv) for kv in context.items]
            errors = VecV()

            def info(m):
                return {"term": P.to_json(term, m), "context": [nm.concrete(m) for nm in ctx_names]}
            try:
                out = it.call("parser", "resolve_variables", [none(), Str(""), term, nctx, context, errors])
            except FuelExhausted:
                ex.count("fuel")
                return
            except PanicEx as p:
                ex.check(False, "PANIC %s (%s.rs:%s)" % (p.msg, p.module, p.line), info=info)
                return
            ref = RefResolver(ex)
            want = ref.resolve(term, nctx, [(nm, i) for i, nm in enumerate(ctx_names)])
            got_err = [it.deref(e.fields["range"]) for e in errors]
            ex.count("rejected" if ref.errors else "resolved")
            if (len(got_err) > 0) != (len(ref.errors) > 0):
                ex.check(False, "R1.rejected-iff-offence (real %d errors, reference %d offences)" % (len(got_err), len(ref.errors)), info=info)
                return
            # every reported range is an offending identifier; a single offence is reported exactly once
            real_starts = sorted(r.fields["start"] for r in got_err if r is not None)
            want_starts = sorted(s for _, s in ref.errors)
            if all(k == "unbound" for k, _ in ref.errors):
                # without a re-binding (which, once reported, takes the name out of scope and makes
                # later uses unbound) the diagnostics are exactly the unbound occurrences
                ex.check(real_starts == want_starts and len(real_starts) == len(got_err),
                         "R1.unbound-occurrences-reported-once-at-their-identifier", info=info)
            if ref.errors:
                return
            ex.check(T.term_eq(ex, out, want, T.EqOpts(names=False, source_ranges=True, cell_eq=lambda a, b: True)),
                     "R2.indices-and-holes-as-the-reference", info=info)
            same_ctx = len(context.items) == len(before) and all(
                concrete_or(ex, z_and(a[0].sym_eq(None, b[0]), z_eq(a[1], b[1]))) for a, b in zip(sorted_items(context.items), sorted_items(before)))
            ex.check(same_ctx, "R3.context-unchanged-on-success", info=info)
            problems = []
            invariants(ex, out, nctx, problems)
            ex.check(not problems, "R4.parser-output-invariants %s" % problems[:2], info=info)
            if len(ex.samples) < 3 and ex.stats.paths % 41 == 0:
                m = ex.path_model()
                if m is not None:
                    ex.samples.append({"term": P.show(P.to_json(term, m)), "context": [nm.concrete(m) for nm in ctx_names]})
        return ex, body, None
    return make


def sorted_items(items):
    return sorted(items, key=lambda kv: kv[1])


def concrete_or(ex, f):
    if isinstance(f, bool):
        return f
    return ex.branch(f)


def confirm(H, label, case):
    replay = H.get_replay()
    r = replay.call({"op": "resolve", "term": case["term"], "context": case["context"], "source": " " * 400})
    shown = "%s in context %s" % (P.show(case["term"]), case["context"])
    if "panic" in r:
        return True, "%s: compiled resolve_variables panics: %s" % (shown, r["panic"])
    if "result" not in r:
        return True, "%s: compiled resolve failed: %s" % (shown, r)
    # evaluate the reference concretely on the same input
    cx = ConcreteCtx()
    term = from_pjson(case["term"])
    names = [SymName(NAMES.index(n)) for n in case["context"]]
    ref = RefResolver(cx)
    want = ref.resolve(term, len(names), [(nm, i) for i, nm in enumerate(names)])
    nerr = len(r["errors"])
    if (nerr > 0) != (len(ref.errors) > 0):
        return True, "%s: the compiled resolver reports %d errors, the reference finds %d offences (%s)" % (shown, nerr, len(ref.errors), ref.errors)
    if label.startswith("R1"):
        if all(k == "unbound" for k, _ in ref.errors) and nerr != len(ref.errors):
            return True, "%s: %d unbound occurrences, %d errors reported" % (shown, len(ref.errors), nerr)
        return False, "%s: rejected by both (%d errors, %d offences); ranges are not visible in the native messages" % (shown, nerr, len(ref.errors))
    if ref.errors:
        return False, "%s: both reject with %d errors" % (shown, nerr)
    got = T.from_json(r["result"], r["cells"], {})
    eq = T.term_eq(cx, got, want, T.EqOpts(names=False, source_ranges=True, cell_eq=lambda a, b: True))
    if not concrete_truth(eq):
        return True, "%s resolves to %s, the reference gives %s" % (shown, T.show(r["result"], r["cells"]), T.show(T.Concretizer(cx, empty_model()).term(want)))
    after = sorted(r["context_after"])
    before = sorted([n, i] for i, n in enumerate(case["context"]))
    if [list(x) for x in after] != before:
        return True, "%s: the context afterwards is %s" % (shown, after)
    return False, "%s: compiled result equals the reference" % shown


def from_pjson(j):
    rng = P.sr(j["sr"][0], j["sr"][1])
    c = j["v"]
    nm = lambda s: SymName(NAMES.index(s))
    sv = lambda x: P.svar(nm(x["name"]), P.sr(x["sr"][0], x["sr"][1]))
    if c == "Variable":
        return P.pmk(c, [nm(j["name"])], rng)
    if c == "Lambda":
        return P.pmk(c, [sv(j["var"]), j["implicit"], none() if j["domain"] is None else some(from_pjson(j["domain"])), from_pjson(j["body"])], rng)
    if c == "Pi":
        return P.pmk(c, [sv(j["var"]), j["implicit"], from_pjson(j["domain"]), from_pjson(j["codomain"])], rng)
    if c == "Let":
        return P.pmk(c, [sv(j["var"]), none() if j["ann"] is None else some(from_pjson(j["ann"])), from_pjson(j["def"]), from_pjson(j["body"])], rng)
    return P.pmk(c, [from_pjson(k) for k in j.get("kids", [])], rng)


def validate(H, n):
    if H.worker:
        return
    replay = H.get_replay()
    bad = 0
    rng = H.rng
    for i in range(n):
        ex, it = H.engine()
        ex.frames.append(Frame(ex._new_solver()))
        ex.fuel_left = 10 ** 6
        ex.eval_left = 10 ** 8
        ex.choose = lambda k: rng.randrange(k)
        ex.add = lambda f: None
        g = Gen(ex, rng.randint(2, 7), False)
        term = g.term()
        sol = z3.Solver()
        for v in g.names:
            sol.add(v == rng.randrange(len(NAMES)))
        sol.check()
        m = sol.model()
        tj = P.to_json(term, m)
        ctxn = rng.sample(NAMES[1:], rng.randint(0, 2))
        conc = from_pjson(tj)
        context = MapV()
        for k, nm in enumerate(ctxn):
            context.items.append([SymName(NAMES.index(nm)), k])
        errors = VecV()
        try:
            out = it.call("parser", "resolve_variables", [none(), Str(""), conc, len(ctxn), context, errors])
        except PanicEx:
            out = None
        exp = replay.call({"op": "resolve", "term": tj, "context": ctxn, "source": " " * 400})
        ok = True
        if "result" not in exp:
            ok = out is None
        else:
            if len(errors) != len(exp["errors"]):
                ok = False
            elif not errors:
                c = T.Concretizer(ex, empty_model())
                gj = T.canon(T.inline_cells(strip_names(c.term(out)), c.cells_table()))
                wj = T.canon(T.inline_cells(strip_names(exp["result"]), exp["cells"]))
                ok = gj == wj
        if not ok:
            bad += 1
            H.mismatches.append({"label": "validate.resolve", "case": tj, "detail": "interpreter and compiled resolve_variables disagree on %s in %s" % (P.show(tj), ctxn)})
        H.validated += 1
        H.functions |= ex.functions_executed
        ex.frames.pop()
    H.log("encoder validation: %d concrete trees through interpreter and compiled resolve_variables, %d disagreements" % (H.validated, bad))


def strip_names(j):
    if isinstance(j, dict):
        return {k: strip_names(v) for k, v in j.items() if k != "name"}
    if isinstance(j, list):
        return [strip_names(x) for x in j]
    return j


def main():
    H = Harness(PID)
    quick = H.tier == "quick"
    if H.args.replay:
        with open(H.args.replay) as fh:
            rec = json.load(fh)
        reproduced, detail = confirm(H, rec["label"], rec["case"])
        print(("REPRODUCED: " if reproduced else "NOT REPRODUCED: ") + detail)
        return 1 if reproduced else 0
    validate(H, 80 if quick else 400)
    budget = int(os.environ.get("C08_BUDGET", "0")) or (6 if quick else 7)
    t0 = time.time()
    m = parallel_explore(make_factory(H, budget, quick), H.jobs)
    name = "resolve_variables on skeletons of <= %d nodes, symbolic names" % budget
    H.absorb_merged(name, m)
    H.log("%s: %d paths %s, %d obligations, %d discharged, %d workers, %.1fs" % (
        name, m.stats.get("paths", 0), m.counters, m.stats.get("obligations", 0), m.stats.get("discharged", 0), m.workers, time.time() - t0))
    seen = {}
    for label, case, trace in m.violations:
        lab = label.split(" ")[0]
        if seen.get(lab, 0) >= 4:
            continue
        seen[lab] = seen.get(lab, 0) + 1
        reproduced, detail = confirm(H, label, case)
        H.report(label, case, reproduced, detail)
    H.bounds.update({"skeletons": "syntax trees of at most %d nodes over variable, lambda (with/without annotation), pi, application, let (with/without annotation; nested lets flatten into groups)%s" % (budget, "" if quick else ", sum"),
                     "names": "every binder/occurrence/context name symbolic over {_, a, b, c}; initial context of 0-2 distinct names",
                     "outside": "identifier spelling (keyword prefixes, non-ASCII) is C09's part; larger trees"})
    return H.finish()


if __name__ == "__main__":
    run_main(main)
