"""C09 -- tokens partition the source text exactly.

tokenizer::tokenize (both passes) is executed by path forking on source texts of N characters whose
code points are symbolic (all of ASCII plus non-ASCII representatives; see gramsym/text.py); every
character test of the tokenizer refines the code point.  Oracle: an independent maximal-munch lexer
whose line-break rule is computed from grammar.y (FIRST/LAST of `term`), plus direct structural
assertions on the byte ranges."""
import json
import os
import re
import sys
import time

import z3

sys.path.insert(0, os.path.dirname(os.path.dirname(os.path.abspath(__file__))))

from gramsym.harness import Harness, run_main
from gramsym import terms as T, text as X
from gramsym.values import (Adt, Struct, TupleV, VecV, Big, Char, Str, Union, none, some, z_and, z_or, z_not, z_eq, is_sym, InternalError)
from gramsym.explorer import PathAbort, FuelExhausted, Frame
from gramsym.interp import PanicEx
from gramsym.parallel import parallel_explore
from gramsym.loader import REPO

PID = "C09"

SYMBOLS1 = {"*": "Asterisk", ":": "Colon", "{": "LeftCurly", "(": "LeftParen", "+": "Plus", "}": "RightCurly", ")": "RightParen",
            "/": "Slash", ";": "Terminator"}
KEYWORDS = {"bool": "Boolean", "else": "Else", "false": "False", "if": "If", "int": "Integer", "then": "Then", "true": "True",
            "type": "Type"}
GRAMMAR_TOKEN = {"Asterisk": "ASTERISK", "Boolean": "BOOLEAN", "Colon": "COLON", "DoubleEquals": "DOUBLE_EQUALS", "Else": "ELSE",
                 "Equals": "EQUALS", "False": "FALSE", "GreaterThan": "GREATER_THAN", "GreaterThanOrEqualTo": "GREATER_THAN_OR_EQUAL",
                 "Identifier": "IDENTIFIER", "If": "IF", "Integer": "INTEGER", "IntegerLiteral": "INTEGER_LITERAL",
                 "LeftCurly": "LEFT_CURLY", "LeftParen": "LEFT_PAREN", "LessThan": "LESS_THAN", "LessThanOrEqualTo": "LESS_THAN_OR_EQUAL",
                 "Minus": "MINUS", "Plus": "PLUS", "RightCurly": "RIGHT_CURLY", "RightParen": "RIGHT_PAREN", "Slash": "SLASH",
                 "Terminator": "TERMINATOR", "Then": "THEN", "ThickArrow": "THICK_ARROW", "ThinArrow": "THIN_ARROW", "True": "TRUE",
                 "Type": "TYPE"}


def first_last():
    """FIRST and LAST token sets of `term` in /repo/grammar.y."""
    import c07
    tokens, rules = c07.read_grammar()
    rules = c07.inline_empty(rules)
    first = {n: set() for n in rules}
    last = {n: set() for n in rules}
    changed = True
    while changed:
        changed = False
        for n, alts in rules.items():
            for a in alts:
                for table, sym in ((first, a[0]), (last, a[-1])):
                    add = table[sym] if sym in rules else {sym}
                    if not add <= table[n]:
                        table[n] |= add
                        changed = True
    # A token that the grammar also uses as an infix operator (`A: B t C` with B a nonterminal)
    # continues the previous line when it opens a line: `a` newline `- b` is `a - b`.  The statement
    # of C10 says both "can start an expression" and "breaking a line before an operator is
    # equivalent to writing it on one line"; for the one token to which both apply (MINUS) the
    # tokenizer chooses the second, and so does this reference.
    infix = set()
    for n, alts in rules.items():
        for a in alts:
            if len(a) == 3 and a[0] in rules and a[1] not in rules:
                infix.add(a[1])
    return first["term"] - infix, last["term"]


class RefLexer:
    """Maximal munch over the symbolic characters; returns ('ok', tokens) or ('err', [(lo, hi)])."""

    def __init__(self, ex, it, tm, first, last):
        self.ex, self.it, self.tm = ex, it, tm
        self.first, self.last = first, last

    def is_(self, k, ch):
        e = z_eq(self.tm.cps[k], ord(ch))
        return e if isinstance(e, bool) else self.ex.branch(e)

    def pred(self, name, k):
        f = self.tm.char_pred(self.it, name, Char(self.tm.cps[k]))
        return f if isinstance(f, bool) else self.ex.branch(f)

    def lex(self):
        tm = self.tm
        n = tm.n
        raw = []      # (kind, lo, hi, payload) ; kind 'NL' for a line break
        errors = []
        i = 0
        while i < n:
            done = False
            for ch, kind in SYMBOLS1.items():
                if self.is_(i, ch):
                    raw.append((kind, i, i + 1, "Semicolon" if ch == ";" else None))
                    i += 1
                    done = True
                    break
            if done:
                continue
            if self.is_(i, "\n"):
                raw.append(("NL", i, i + 1, None))
                i += 1
                continue
            if self.is_(i, "-"):
                if i + 1 < n and self.is_(i + 1, ">"):
                    raw.append(("ThinArrow", i, i + 2, None))
                    i += 2
                else:
                    raw.append(("Minus", i, i + 1, None))
                    i += 1
                continue
            if self.is_(i, "<"):
                if i + 1 < n and self.is_(i + 1, "="):
                    raw.append(("LessThanOrEqualTo", i, i + 2, None))
                    i += 2
                else:
                    raw.append(("LessThan", i, i + 1, None))
                    i += 1
                continue
            if self.is_(i, ">"):
                if i + 1 < n and self.is_(i + 1, "="):
                    raw.append(("GreaterThanOrEqualTo", i, i + 2, None))
                    i += 2
                else:
                    raw.append(("GreaterThan", i, i + 1, None))
                    i += 1
                continue
            if self.is_(i, "="):
                if i + 1 < n and self.is_(i + 1, "="):
                    raw.append(("DoubleEquals", i, i + 2, None))
                    i += 2
                elif i + 1 < n and self.is_(i + 1, ">"):
                    raw.append(("ThickArrow", i, i + 2, None))
                    i += 2
                else:
                    raw.append(("Equals", i, i + 1, None))
                    i += 1
                continue
            if self.pred("is_alphabetic", i) or self.is_(i, "_"):
                j = i + 1
                while j < n and (self.pred("is_alphanumeric", j) or self.is_(j, "_")):
                    j += 1
                kind = "Identifier"
                for kw, kk in KEYWORDS.items():
                    if j - i == len(kw) and all(self.is_(i + t, c) for t, c in enumerate(kw)):
                        kind = kk
                        break
                raw.append((kind, i, j, None))
                i = j
                continue
            if self.pred("is_ascii_digit", i):
                j = i + 1
                while j < n and self.pred("is_ascii_digit", j):
                    j += 1
                v = 0
                for k in range(i, j):
                    v = v * 10 + (tm.cps[k] - 48)
                raw.append(("IntegerLiteral", i, j, v))
                i = j
                continue
            if self.pred("is_whitespace", i):
                i += 1
                continue
            if self.is_(i, "#"):
                # a comment runs to the end of its line; the line break itself is not part of it
                j = i + 1
                while j < n and not self.is_(j, "\n"):
                    j += 1
                i = j
                continue
            # unexpected: the rest of the grapheme cluster
            cls = [self.tm.gcb_class(self.it, i)]
            k = i + 1
            while k < n:
                cls.append(self.tm.gcb_class(self.it, k))
                if X.no_break(cls, len(cls) - 1):
                    k += 1
                else:
                    break
            errors.append((i, k))
            i += 1      # the tokenizer continues with the next code point
        if errors:
            return ("err", errors)
        # line breaks: a terminator iff the token before can end an expression and the token after can start one
        toks = [t for t in raw if t[0] != "NL"]
        out = []
        idx = 0
        pending_nl = None
        prev = None
        for t in raw:
            if t[0] == "NL":
                if prev is not None and pending_nl is None:
                    pending_nl = t
                continue
            if pending_nl is not None and prev is not None and self.can_end(prev) and self.can_start(t):
                out.append(("Terminator", pending_nl[1], pending_nl[2], "LineBreak"))
            pending_nl = None
            out.append(t)
            prev = t
        return ("ok", out)

    def can_end(self, t):
        return (t[0] == "Terminator") or GRAMMAR_TOKEN[t[0]] in self.last

    def can_start(self, t):
        return (t[0] == "Terminator") or GRAMMAR_TOKEN[t[0]] in self.first


def token_view(it, tok):
    tok = it.deref(tok)
    v = tok.fields["variant"]
    r = tok.fields["source_range"]
    payload = None
    if v.variant == "Terminator":
        payload = v.fields[0].variant
    elif v.variant in ("Identifier", "IntegerLiteral"):
        payload = v.fields[0]
    return v.variant, r.fields["start"], r.fields["end"], payload


def obligations(ex, it, tm, first, last, n):
    info = lambda m: {"text": tm.text.concrete(m)}
    for c in tm.domain():
        ex.add(c)
    it.text = tm
    try:
        r = it.resolve(it.call("tokenizer", "tokenize", [none(), tm.text]))
    except PanicEx as p:
        ex.check(False, "PANIC %s (%s.rs:%s)" % (p.msg, p.module, p.line), info=info)
        return
    ref = RefLexer(ex, it, tm, first, last).lex()
    if r.variant == "Err":
        errs = [it.deref(e) for e in r.fields[0]]
        ex.count("err")
        if ref[0] != "err":
            ex.check(False, "T1.rejected-but-every-character-is-legal", info=info)
            return
        ex.check(len(errs) >= 1, "T1.errors-non-empty", info=info)
        if len(errs) != len(ref[1]):
            ex.check(False, "T2.one-error-per-unexpected-symbol (real %d, reference %d)" % (len(errs), len(ref[1])), info=info)
            return
        f = True
        for e, (lo, hi) in zip(errs, ref[1]):
            rng = it.deref(e.fields["range"])
            f = z_and(f, z_eq(rng.fields["start"], tm.offs[lo]), z_eq(rng.fields["end"], tm.offs[hi]))
        ex.check(f, "T2.error-range-is-the-grapheme", info=info)
        return
    ex.count("ok")
    toks = [token_view(it, t) for t in r.fields[0]]
    if ref[0] != "ok":
        ex.check(False, "T1.accepted-but-an-unexpected-symbol-exists", info=info)
        return
    want = ref[1]
    if len(toks) != len(want):
        ex.check(False, "T3.token-stream-differs-from-reference (real %s, reference %s)" % ([t[0] for t in toks], [t[0] for t in want]), info=info)
        return
    f = True
    for (k1, s1, e1, p1), (k2, lo, hi, p2) in zip(toks, want):
        if k1 != k2:
            ex.check(False, "T3.token-stream-differs-from-reference (real %s, reference %s)" % ([t[0] for t in toks], [t[0] for t in want]), info=info)
            return
        f = z_and(f, z_eq(s1, tm.offs[lo]), z_eq(e1, tm.offs[hi]))
        if k1 == "Terminator":
            if p1 != p2:
                f = False
        elif k1 == "Identifier":
            f = z_and(f, tm.str_eq(it, p1, X.SymText(tm, lo, hi)))
        elif k1 == "IntegerLiteral":
            f = z_and(f, z_eq(p1.v, p2))
    ex.check(f, "T3.ranges-lexemes-and-values-as-reference", info=info)
    # direct structural assertions (independent of the reference)
    g = True
    prev_end = 0
    for (k1, s1, e1, p1) in toks:
        g = z_and(g, s1 >= prev_end, s1 < e1, e1 <= tm.offs[n])
        prev_end = e1
    ex.check(g, "T4.ranges-increasing-nonempty-within-text", info=info)
    if len(ex.samples) < 3 and ex.stats.paths % 101 == 0:
        m = ex.path_model()
        if m is not None:
            ex.samples.append({"text": tm.text.concrete(m), "tokens": [t[0] for t in toks]})


def make_factory(H, n, first, last, alphabets=None):
    """alphabets: optional list of n lists of code points, restricting each position (families of
    longer texts over a layout-focused alphabet)."""
    def make():
        ex, it = H.engine(solver_timeout_ms=120000)
        ex.fuel = 20000
        tm = X.TextModel(H.get_replay(), n=n)

        def body(ex):
            it.call_depth = 0
            if alphabets is not None:
                for cp, al in zip(tm.cps, alphabets):
                    ex.add(z3.Or(*[cp == a for a in al]))
            obligations(ex, it, tm, first, last, n)
        return ex, body, None
    return make


def confirm(H, label, case):
    """Replay the text on the compiled tokenizer and evaluate the same obligations concretely."""
    replay = H.get_replay()
    from gramsym.lawlib import ConcreteCtx
    s = case["text"]
    first, last = first_last()
    cx = ConcreteCtx()
    ex2, it2 = H.engine()
    tm = X.TextModel(replay, cps=[ord(c) for c in s])
    ref = RefLexer(cx, it2, tm, first, last).lex()
    e = replay.call({"op": "tokenize", "source": s})
    if "panic" in e:
        return True, "tokenize(%r) panics: %s" % (s, e["panic"])
    if "err" in e:
        if ref[0] != "err":
            return True, "tokenize(%r) reports %d errors, the reference accepts it" % (s, len(e["err"]))
        return (len(e["err"]) != len(ref[1])), "tokenize(%r): %d errors, reference %d unexpected graphemes" % (s, len(e["err"]), len(ref[1]))
    if ref[0] != "ok":
        return True, "tokenize(%r) accepts, the reference finds unexpected symbols at %s" % (s, ref[1])
    got = [(t["v"], t["sr"][0], t["sr"][1], t["arg"]) for t in e["ok"]]
    want = []
    for (k, lo, hi, p) in ref[1]:
        arg = None
        if k == "Terminator":
            arg = p
        elif k == "Identifier":
            arg = s[lo:hi]
        elif k == "IntegerLiteral":
            arg = str(p)
        want.append((k, tm.offs[lo], tm.offs[hi], arg))
    return (got != want), "tokenize(%r) = %s; reference %s" % (s, got, want)


def validate(H, n):
    if H.worker:
        return
    replay = H.get_replay()
    cnt, bad = X.validate_model(replay, 4)
    for b in bad:
        H.mismatches.append({"label": "validate.text-model", "case": b, "detail": b})
    H.validated += cnt
    ex, it = H.engine()
    ex.frames.append(Frame(ex._new_solver()))
    rng = H.rng
    alpha = [ord(c) for c in "ab_1 0\n\t#*-><=(){};:+/ifnt"] + X.R_CODEPOINTS + [1, 13]
    nb = 0
    for i in range(n):
        ex.fuel_left = 10 ** 6
        ex.eval_left = 10 ** 8
        it.call_depth = 0
        cps = [rng.choice(alpha) for _ in range(rng.randint(0, 7))]
        s = "".join(chr(c) for c in cps)
        tm = X.TextModel(replay, cps=cps)
        it.text = tm
        try:
            r = it.resolve(it.call("tokenizer", "tokenize", [none(), tm.text]))
            got = ("ok", [(t.fields["variant"].variant, t.fields["source_range"].fields["start"], t.fields["source_range"].fields["end"]) for t in r.fields[0]]) if r.variant == "Ok" else ("err", len(r.fields[0]))
        except PanicEx as p:
            got = ("panic", p.msg)
        e = replay.call({"op": "tokenize", "source": s})
        want = ("ok", [(t["v"], t["sr"][0], t["sr"][1]) for t in e["ok"]]) if "ok" in e else (("err", len(e["err"])) if "err" in e else ("panic", e.get("panic")))
        if got[0] != want[0] or (got[0] != "panic" and got[1] != want[1]):
            nb += 1
            H.mismatches.append({"label": "validate.tokenize", "case": s, "detail": "interpreter %s, compiled %s" % (got, want)})
        H.validated += 1
    ex.frames.pop()
    H.functions |= ex.functions_executed
    H.log("encoder validation: text model tables and grapheme rule (%d probes, %d mismatches); %d random texts through interpreter and compiled tokenizer, %d disagreements" % (cnt, len(bad), n, nb))


def handle(H, records, cap=3, classify=None):
    seen = {}
    for label, case, trace in records:
        lab = label.split(" ")[0]
        if seen.get(lab, 0) >= cap:
            continue
        seen[lab] = seen.get(lab, 0) + 1
        reproduced, detail = confirm(H, label, case)
        H.report(label, case, reproduced, detail, finding=classify(label, case) if (classify and reproduced) else None)


def classify(label, case):
    """The listed comment finding: a comment whose text is empty or ends in a multi-byte character
    swallows its line break (and everything up to the next line break)."""
    s = case["text"]
    if re.search(r"#\n", s) or re.search(r"#[^\n]*[^\x00-\x7f]\n", s):
        return "C10-comment-swallows-line-break"
    return None


def main():
    H = Harness(PID)
    quick = H.tier == "quick"
    if H.args.replay:
        with open(H.args.replay) as fh:
            rec = json.load(fh)
        reproduced, detail = confirm(H, rec["label"], rec["case"])
        print(("REPRODUCED: " if reproduced else "NOT REPRODUCED: ") + detail)
        return 1 if reproduced else 0
    validate(H, 300 if quick else 1500)
    first, last = first_last()
    sizes = [1, 2, 3] if quick else [1, 2, 3, 4]
    for n in sizes:
        name = "texts of %d characters" % n
        t0 = time.time()
        m = parallel_explore(make_factory(H, n, first, last), H.jobs)
        H.absorb_merged(name, m)
        H.log("%s: %d paths %s, %d obligations, %d discharged, %d workers, %.1fs" % (
            name, m.stats.get("paths", 0), m.counters, m.stats.get("obligations", 0), m.stats.get("discharged", 0), m.workers, time.time() - t0))
        handle(H, m.violations, classify=classify)
    # families of longer texts over restricted alphabets: "integer literals keep their exact value
    # whatever their length" (digit-only texts; every length is one symbolic path whose value is a
    # linear form in the digits), and keyword-prefix words (added after S-C09-02: a 19-digit fast path)
    digits = list(range(48, 58))
    lens = list(range(5, 41)) if quick else list(range(5, 81))
    t0 = time.time()
    tot = 0
    for n in lens:
        m = parallel_explore(make_factory(H, n, first, last, alphabets=[digits] * n), 1)
        H.absorb_merged("integer literal of %d symbolic digits" % n, m)
        tot += m.stats.get("paths", 0)
        handle(H, m.violations, classify=classify)
    H.log("integer literals of %d..%d symbolic digits: %d paths, %.1fs" % (lens[0], lens[-1], tot, time.time() - t0))
    kw = [ord(c) for c in "iftyponlbeshru_2"]
    for n in ([4, 5, 6] if quick else [4, 5, 6, 7]):
        name = "words of %d characters over the letters of the keywords, `_` and a digit" % n
        t0 = time.time()
        m = parallel_explore(make_factory(H, n, first, last, alphabets=[kw] * n), H.jobs)
        H.absorb_merged(name, m)
        H.log("%s: %d paths %s, %d obligations, %d discharged, %d workers, %.1fs" % (
            name, m.stats.get("paths", 0), m.counters, m.stats.get("obligations", 0), m.stats.get("discharged", 0), m.workers, time.time() - t0))
        handle(H, m.violations, classify=classify)
    H.bounds["families"] = "digit-only texts of %d..%d characters; words of up to %d characters over %r" % (lens[0], lens[-1], 6 if quick else 7, "".join(map(chr, kw)))
    H.bounds.update({"texts": "all texts of up to %d characters, each character any of ASCII 0-127 or one of %s" % (sizes[-1], ["U+%04X" % r for r in X.R_CODEPOINTS]),
                     "outside": "longer texts (literals longer than the bound), other code points, invalid UTF-8 (rejected before tokenize runs)"})
    H.assumptions += ["char predicates and UTF-8 widths of the representatives and the grapheme-break rule are read from / validated against the compiled std and unicode-segmentation"]
    return H.finish()


if __name__ == "__main__":
    run_main(main)
