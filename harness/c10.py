"""C10 -- comments, spacing and line layout do not change a program's meaning.

Relational: tokenizer::tokenize is executed by path forking on *pairs* of related symbolic texts
(shared symbolic characters) and the two token streams are compared (kinds and payloads; ranges
ignored): (1) deleting a comment up to, but excluding, its line break (empty comments, comments ending
in a multi-byte character, comments at end of file); (2) inserting a space, tab, CR or non-ASCII blank
at a token boundary or at either end; (3) turning one line break into two or three; (4) replacing a
line break that produced a terminator by `;` (terminator kind ignored); (6) longer texts over a
layout-focused alphabet (brackets, separators, one-character tokens before `token line-break token`)
against the reference lexer: the rule must not depend on context; (5) for all 28x28 pairs of
token kinds (canonical lexemes): a line break between them yields a terminator iff the first can
end and the second can start an expression, `;` counting as both -- the two sets being LAST/FIRST
of `term` computed from /repo/grammar.y at run time."""
import json
import os
import sys
import time

import z3

sys.path.insert(0, os.path.dirname(os.path.dirname(os.path.abspath(__file__))))

from gramsym.harness import Harness, run_main
from gramsym import terms as T, text as X
from gramsym.values import (Adt, Struct, TupleV, VecV, Big, Char, Str, Union, none, some, z_and, z_or, z_not, z_eq, is_sym, InternalError)
from gramsym.explorer import PathAbort, FuelExhausted, Frame
from gramsym.interp import PanicEx
from gramsym.parallel import parallel_explore
import c09

PID = "C10"
BLANKS = [32, 9, 13, 0xA0]


def run_tokenize(ex, it, tm):
    it.text = tm
    r = it.resolve(it.call("tokenizer", "tokenize", [none(), tm.text]))
    if r.variant == "Err":
        return ("err", len(r.fields[0]), None)
    toks = [c09.token_view(it, t) for t in r.fields[0]]
    return ("ok", toks, None)


def char_index(tm, off):
    """Character index of a canonical byte offset expression."""
    k = tm.off_index.get(tm._key(off))
    if k is None and is_sym(off):
        k = tm.off_index.get(tm._key(z3.simplify(off)))
    return k


def same_stream(it, a, b, ignore_terminator_kind=False):
    """Formula: two token streams are the same (kinds and payloads)."""
    if a[0] != b[0]:
        return False
    if a[0] == "err":
        return a[1] == b[1]
    ta, tb = a[1], b[1]
    if len(ta) != len(tb):
        return False
    f = True
    for (k1, _, _, p1), (k2, _, _, p2) in zip(ta, tb):
        if k1 != k2:
            return False
        if k1 == "Terminator":
            if not ignore_terminator_kind and p1 != p2:
                return False
        elif k1 == "Identifier":
            f = z_and(f, it.sym_eq(p1, p2))
        elif k1 == "IntegerLiteral":
            f = z_and(f, z_eq(p1.v, p2.v))
    return f


def kinds(s):
    return s[1] if s[0] == "err" else [t[0] + ("(" + t[3] + ")" if t[0] == "Terminator" else "") for t in s[1]]


def make_comment(H, n1, n2, n3):
    """(1) pre + '#' + body + post  vs  pre + post, where post is empty or starts with a line break."""
    def make():
        ex, it = H.engine(solver_timeout_ms=120000)
        ex.fuel = 40000
        replay = H.get_replay()
        pre = [z3.Int("p%d" % i) for i in range(n1)]
        body = [z3.Int("b%d" % i) for i in range(n2)]
        post = [z3.Int("q%d" % i) for i in range(n3)]
        A = X.TextModel(replay, cps=pre + [ord("#")] + body + post)
        B = X.TextModel(replay, cps=pre + post)

        def bodyfn(ex):
            it.call_depth = 0
            for c in A.domain():
                ex.add(c)
            for b in body:
                ex.add(b != 10)
            if post:
                ex.add(post[0] == 10)
            info = lambda m: {"with_comment": A.text.concrete(m), "without": B.text.concrete(m)}
            try:
                sa = run_tokenize(ex, it, A)
                sb = run_tokenize(ex, it, B)
            except PanicEx as p:
                ex.check(False, "PANIC %s" % p.msg, info=info)
                return
            ex.count(sa[0])
            ex.check(same_stream(it, sa, sb), "L1.deleting-a-comment-changes-the-tokens (%s vs %s)" % (kinds(sa), kinds(sb)), info=info)
        return ex, bodyfn, None
    return make


def make_insertions(H, n):
    """(2), (3), (4) on a base text of n symbolic characters."""
    def make():
        ex, it = H.engine(solver_timeout_ms=120000)
        ex.fuel = 60000
        replay = H.get_replay()
        base = [z3.Int("c%d" % i) for i in range(n)]
        A = X.TextModel(replay, cps=base)
        blank = z3.Int("blank")

        def bodyfn(ex):
            it.call_depth = 0
            for c in A.domain():
                ex.add(c)
            ex.add(z3.Or(*[blank == b for b in BLANKS]))
            try:
                sa = run_tokenize(ex, it, A)
            except PanicEx as p:
                ex.check(False, "PANIC %s" % p.msg, info=lambda m: {"text": A.text.concrete(m)})
                return
            if sa[0] != "ok":
                ex.count("err")
                return
            ex.count("ok")
            toks = sa[1]
            # token boundaries (character indices) of the base text
            bounds = {0, n}
            inside = set()
            for (k, s, e, p) in toks:
                a, b = A.index_of(it, s), A.index_of(it, e)
                bounds.add(a)
                bounds.add(b)
                inside |= set(range(a + 1, b))
            # comments: a boundary inside a comment is still fine for blanks; keep it simple: all
            # positions that are not strictly inside a token
            cands = sorted(set(range(n + 1)) - inside)
            pos = cands[ex.choose(len(cands))] if len(cands) > 1 else cands[0]
            # (2) a blank at a position outside every token
            Bm = X.TextModel(replay, cps=base[:pos] + [blank] + base[pos:])
            info2 = lambda m: {"text": A.text.concrete(m), "changed": Bm.text.concrete(m), "rewrite": "blank inserted at %d" % pos}
            try:
                sb = run_tokenize(ex, it, Bm)
                ex.check(same_stream(it, sa, sb), "L2.inserting-a-blank-changes-the-tokens (%s vs %s)" % (kinds(sa), kinds(sb)), info=info2)
            except PanicEx as p:
                ex.check(False, "PANIC %s" % p.msg, info=info2)
            # (3) one line break -> two / three; (4) a terminator line break -> ';'
            nls = [i for i in range(n) if (lambda e: e if isinstance(e, bool) else ex.branch(e))(z_eq(base[i], 10))]
            if nls:
                i = nls[ex.choose(len(nls))] if len(nls) > 1 else nls[0]
                extra = 1 + ex.choose(2)
                Cm = X.TextModel(replay, cps=base[:i] + [10] * extra + base[i:])
                info3 = lambda m: {"text": A.text.concrete(m), "changed": Cm.text.concrete(m), "rewrite": "%d extra line breaks at %d" % (extra, i)}
                try:
                    sc = run_tokenize(ex, it, Cm)
                    ex.check(same_stream(it, sa, sc), "L3.doubling-a-line-break-changes-the-tokens (%s vs %s)" % (kinds(sa), kinds(sc)), info=info3)
                except PanicEx as p:
                    ex.check(False, "PANIC %s" % p.msg, info=info3)
                # does this line break carry a terminator?
                term_here = [t for t in toks if t[0] == "Terminator" and t[3] == "LineBreak" and A.index_of(it, t[1]) == i]
                if term_here:
                    Dm = X.TextModel(replay, cps=base[:i] + [ord(";")] + base[i + 1:])
                    info4 = lambda m: {"text": A.text.concrete(m), "changed": Dm.text.concrete(m), "rewrite": "line break at %d replaced by ;" % i}
                    try:
                        sd = run_tokenize(ex, it, Dm)
                        ex.check(same_stream(it, sa, sd, ignore_terminator_kind=True),
                                 "L4.semicolon-for-separating-line-break-changes-the-tokens (%s vs %s)" % (kinds(sa), kinds(sd)), info=info4)
                    except PanicEx as p:
                        ex.check(False, "PANIC %s" % p.msg, info=info4)
        return ex, bodyfn, None
    return make


LEXEME = {"Asterisk": "*", "Boolean": "bool", "Colon": ":", "DoubleEquals": "==", "Else": "else", "Equals": "=", "False": "false",
          "GreaterThan": ">", "GreaterThanOrEqualTo": ">=", "Identifier": "x", "If": "if", "Integer": "int", "IntegerLiteral": "7",
          "LeftCurly": "{", "LeftParen": "(", "LessThan": "<", "LessThanOrEqualTo": "<=", "Minus": "-", "Plus": "+", "RightCurly": "}",
          "RightParen": ")", "Slash": "/", "Terminator": ";", "Then": "then", "ThickArrow": "=>", "ThinArrow": "->", "True": "true",
          "Type": "type"}


def run_table(H):
    """(5) all 28 x 28 pairs of token kinds around one line break (and with a comment / blank line)."""
    if H.worker:
        return
    replay = H.get_replay()
    first, last = c09.first_last()
    ex, it = H.engine()
    ex.frames.append(Frame(ex._new_solver()))
    n = 0
    bad = 0
    t0 = time.time()
    for k1, l1 in LEXEME.items():
        for k2, l2 in LEXEME.items():
            for gap in ("\n", " # c\n\n"):
                ex.fuel_left = 10 ** 6
                ex.eval_left = 10 ** 8
                it.call_depth = 0
                s = l1 + gap + l2
                tm = X.TextModel(replay, cps=[ord(c) for c in s])
                it.text = tm
                r = it.resolve(it.call("tokenizer", "tokenize", [none(), tm.text]))
                got = [c09.token_view(it, t)[0] for t in r.fields[0]] if r.variant == "Ok" else None
                want_term = ((k1 == "Terminator") or c09.GRAMMAR_TOKEN[k1] in last) and ((k2 == "Terminator") or c09.GRAMMAR_TOKEN[k2] in first)
                want = [k1] + (["Terminator"] if want_term else []) + [k2]
                n += 1
                ex.stats.obligations += 1
                if got == want:
                    ex.stats.discharged += 1
                else:
                    bad += 1
                    e = replay.call({"op": "tokenize", "source": s})
                    native = [t["v"] for t in e.get("ok", [])]
                    H.report("L5.line-break-table (%s, %s)" % (k1, k2), {"text": s}, native != want,
                             "tokenize(%r) gives %s; by grammar.y (%s can%s end, %s can%s start an expression) it should be %s" % (
                                 s, native, k1, "" if want_term or ((k1 == "Terminator") or c09.GRAMMAR_TOKEN[k1] in last) else "not",
                                 k2, "" if ((k2 == "Terminator") or c09.GRAMMAR_TOKEN[k2] in first) else "not", want))
    ex.stats.paths += n
    ex.stats.decisions += n
    ex.frames.pop()
    H.absorb("line-break table, 28 x 28 token kinds x 2 gaps", ex)
    H.log("line-break table: %d pairs checked against FIRST/LAST of grammar.y, %d differences, %.1fs" % (n, bad, time.time() - t0))
    H.samples.append({"part": "table", "example": "x\\n( -> Identifier Terminator LeftParen ; x\\n+ -> Identifier Plus"})


def confirm(H, label, case):
    replay = H.get_replay()
    a = case.get("text", case.get("with_comment"))
    b = case.get("changed", case.get("without"))
    ra = replay.call({"op": "tokenize", "source": a})
    rb = replay.call({"op": "tokenize", "source": b})

    def stream(r):
        if "panic" in r:
            return ("panic", r["panic"])
        if "err" in r:
            return ("err", len(r["err"]))
        out = []
        for t in r["ok"]:
            arg = t["arg"]
            if t["v"] == "Terminator" and label.startswith("L4"):
                arg = None
            out.append((t["v"], arg))
        return ("ok", out)
    sa, sb = stream(ra), stream(rb)
    return (sa != sb), "tokenize(%r) = %s but tokenize(%r) = %s" % (a, sa, b, sb)


def handle(H, records, cap=3):
    seen = {}
    for label, case, trace in records:
        lab = label.split(" ")[0]
        if seen.get(lab, 0) >= cap:
            continue
        seen[lab] = seen.get(lab, 0) + 1
        if "changed" not in case and "without" not in case:
            reproduced, detail = c09.confirm(H, label, case)      # L6: a single text against the reference lexer
        else:
            reproduced, detail = confirm(H, label, case)
        H.report(label, case, reproduced, detail)


def main():
    H = Harness(PID)
    quick = H.tier == "quick"
    if H.args.replay:
        with open(H.args.replay) as fh:
            rec = json.load(fh)
        reproduced, detail = confirm(H, rec["label"], rec["case"])
        print(("REPRODUCED: " if reproduced else "NOT REPRODUCED: ") + detail)
        return 1 if reproduced else 0
    c09.validate(H, 200 if quick else 1000)
    run_table(H)
    shapes = [(1, 0, 2), (2, 1, 1), (1, 1, 0), (0, 1, 2), (2, 2, 2)] if quick else [(1, 0, 2), (1, 1, 2), (2, 1, 1), (1, 2, 2), (2, 2, 0), (0, 2, 2), (2, 0, 2)]
    parts = [("comment deletion, pre=%d body=%d post=%d characters" % s, make_comment(H, *s)) for s in shapes]
    for n in ([2, 3] if quick else [2, 3, 4]):
        parts.append(("blank insertion / line-break doubling / ';' for line break on texts of %d characters" % n, make_insertions(H, n)))
    # (6) the line-break rule does not depend on what came before: longer texts over a layout-focused
    # alphabet (brackets, separators, one-character tokens) around a line break, against the
    # reference lexer of C09 (added after S-C10-02: a tokenizer that counts open parentheses)
    first, last = c09.first_last()
    ctx = [ord(c) for c in "(){} ;\n="]
    tok = [ord(c) for c in "x1+()=-}"]
    fams = [("2 context characters, token, line break, token", [ctx, ctx, tok, [10], tok])]
    if quick:
        fams.append(("3 bracket characters, token, line break, token", [[ord(c) for c in "(){}"]] * 3 + [[ord(c) for c in "x+)("], [10], [ord(c) for c in "x+)("]]))
    else:
        fams.append(("3 context characters, token, line break, token", [ctx, ctx, ctx, tok, [10], tok]))
        fams.append(("2 context characters, token, comment, line break, token", [ctx, ctx, tok, [35], [ord("c"), 0xE9, 32], [10], tok]))
    for fname, al in fams:
        parts.append(("L6 context independence of the line-break rule: " + fname, c09.make_factory(H, len(al), first, last, alphabets=al)))
    for name, mk in parts:
        t0 = time.time()
        m = parallel_explore(mk, H.jobs)
        H.absorb_merged(name, m)
        H.log("%s: %d paths %s, %d obligations, %d discharged, %d workers, %.1fs" % (
            name, m.stats.get("paths", 0), m.counters, m.stats.get("obligations", 0), m.stats.get("discharged", 0), m.workers, time.time() - t0))
        handle(H, m.violations)
    H.bounds.update({"texts": "symbolic characters over ASCII and the representatives of gramsym/text.py; sizes as named per part",
                     "outside": "longer texts; the parser's treatment of the two terminator kinds (it matches Terminator(_) in one place, see parser.rs parse_let)"})
    return H.finish()


if __name__ == "__main__":
    run_main(main)
