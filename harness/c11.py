"""C11 -- substitution and index shifting are capture-avoiding.

The real bodies of de_bruijn::{signed_shift, unsigned_shift, open} and term::free_variables are
executed symbolically over term templates whose constructor tags, indices, cutoffs, amounts and
literals are all symbolic; every call is summarised (explored once, results merged), so each law
below is decided by a handful of solver queries that cover every term shape within the bound.
"""
import json
import os
import sys
import time

import z3

sys.path.insert(0, os.path.dirname(os.path.dirname(os.path.abspath(__file__))))

from gramsym.harness import Harness, run_main
from gramsym import inputs as I, terms as T
from gramsym.refs import Refs
from gramsym.values import (ISz, Union, Adt, z_and, z_or, z_not, z_eq, is_sym, InternalError)
from gramsym.interp import SetV, PanicEx
from gramsym.explorer import Explorer, Frame
from gramsym.termgen import random_term
from gramsym.lawlib import (implies, iff, split_option, NativeFailure, JTerm, val, concrete_truth, ConcreteCtx, empty_model)

PID = "C11"








class SymImpl:
    """The real code, executed by the interpreter."""

    def __init__(self, it):
        self.it = it

    def signed_shift(self, t, c, a):
        return split_option(self.it.call("de_bruijn", "signed_shift", [t, c, ISz(a)]))

    def unsigned_shift(self, t, c, a):
        return self.it.call("de_bruijn", "unsigned_shift", [t, c, a])

    def open(self, t, x, u, s):
        return self.it.call("de_bruijn", "open", [t, x, u, s])

    def fv_member(self, t, c, k):
        s = SetV()
        self.it.call("term", "free_variables", [t, c, s])
        return z_or(*[z_and(g, z_eq(e, k)) for g, e in s.items])


class NativeImpl:
    """The compiled code, through gram-replay (concrete values only)."""

    def __init__(self, replay):
        self.replay = replay
        self.trace = []

    def _j(self, t):
        return t if isinstance(t, dict) else t.json

    def _call(self, cmd):
        r = self.replay.call(cmd)
        self.trace.append((cmd, r))
        return r

    def signed_shift(self, t, c, a):
        r = self._call({"op": "signed_shift", "term": t.json, "cells": {}, "cutoff": c, "amount": a})
        if "result" not in r:
            raise NativeFailure(r)
        if r["result"] is None:
            return False, None
        return True, JTerm(r["result"])

    def unsigned_shift(self, t, c, a):
        r = self._call({"op": "unsigned_shift", "term": t.json, "cells": {}, "cutoff": c, "amount": a})
        if "result" not in r:
            raise NativeFailure(r)
        return JTerm(r["result"])

    def open(self, t, x, u, s):
        r = self._call({"op": "open", "term": t.json, "cells": {}, "index": x, "insert": u.json, "shift": s})
        if "result" not in r:
            raise NativeFailure(r)
        return JTerm(r["result"])

    def fv_member(self, t, c, k):
        r = self._call({"op": "free_variables", "term": t.json, "cutoff": c})
        if "result" not in r:
            raise NativeFailure(r)
        return k in r["result"]








def laws(impl, R, ex, v, check, which=None):
    """All obligations of C11 over the inputs v = dict(t,u,c,a,aa,b,x,s,k)."""
    t, u = v["t"], v["u"]
    c, a, aa, b, x, s, k = v["c"], v["a"], v["aa"], v["b"], v["x"], v["s"], v["k"]
    SR = T.EqOpts(source_ranges=True)

    def on(name):
        return which is None or name in which

    if on("L0"):
        some0, r0 = impl.signed_shift(t, c, a)
        d, ref = R.shift(val(t), c, a)
        check("L0.defined", iff(some0, d))
        if r0 is not None:
            check("L0.result", implies(z_and(d, some0), T.term_eq(ex, val(r0), ref, SR)))
    if on("L1"):
        some1, r1 = impl.signed_shift(t, c, 0)
        check("L1.shift-by-zero-defined", some1)
        if r1 is not None:
            check("L1.shift-by-zero-identity", implies(some1, T.term_eq(ex, val(r1), val(t), SR)))
    if on("L2"):
        u1 = impl.unsigned_shift(t, c, aa)
        u2 = impl.unsigned_shift(u1, c, b)
        u3 = impl.unsigned_shift(t, c, aa + b)
        check("L2.shifts-compose", T.term_eq(ex, val(u2), val(u3), SR))
    if on("L3"):
        u1 = impl.unsigned_shift(t, c, aa)
        some3, r3 = impl.signed_shift(u1, c, -aa)
        check("L3.down-undoes-up-defined", some3)
        if r3 is not None:
            check("L3.down-undoes-up", implies(some3, T.term_eq(ex, val(r3), val(t), SR)))
    if on("L4"):
        some4, _ = impl.signed_shift(t, c, -aa)
        # a downward shift fails exactly when some free variable (relative index k) lies in [0, aa)
        check("L4.some-implies-no-free-variable-in-range", implies(z_and(some4, k < aa), z_not(R.fv_member(val(t), c, k))))
        occ = R.fv_occurrences(val(t), c)
        check("L4.none-implies-free-variable-in-range", implies(z_not(some4), z_or(*[z_and(g, e < aa) for g, e in occ])))
    if on("L5"):
        check("L5.free-variables", iff(impl.fv_member(t, c, k), R.fv_member(val(t), c, k)))
    if on("L6"):
        o = impl.open(t, x, u, s)
        check("L6.open-is-substitution", T.term_eq(ex, val(o), R.subst(val(t), x, val(u), s), SR))
    if on("L7"):
        o = impl.open(t, x, u, s)
        some7, low = impl.signed_shift(t, x, -1)
        absent = z_not(R.fv_member(val(t), 0, x))
        check("L7.absent-variable-lowering-defined", implies(absent, some7))
        if low is not None:
            check("L7.absent-variable-only-lowers", implies(z_and(absent, some7), T.term_eq(ex, val(o), val(low), SR)))
    if on("L8"):
        o = impl.open(t, x, u, s)
        real = impl.fv_member(o, 0, k)
        tv, uv = val(t), val(u)
        pred = z_or(z_and(k < x, R.fv_member(tv, 0, k)),
                    z_and(k >= x, R.fv_member(tv, 0, k + 1)),
                    z_and(R.fv_member(tv, 0, x), k >= s, R.fv_member(uv, 0, k - s)))
        check("L8.free-variables-of-open", iff(real, pred))






def main():
    H = Harness(PID)
    quick = H.tier == "quick"
    replay = H.get_replay()
    if H.args.replay:
        with open(H.args.replay) as fh:
            rec = json.load(fh)
        reproduced, detail = confirm(H, rec["label"], rec["case"])
        print(("REPRODUCED: " if reproduced else "NOT REPRODUCED: ") + detail)
        return 1 if reproduced else 0

    # ---------------------------------------------------------------------------------------
    # 1. validate the encoder: concrete inputs through the interpreter and the compiled code
    n_val = 60 if quick else 400
    ex, it = H.engine()
    fr = Frame(ex._new_solver())
    ex.frames.append(fr)
    ex.fuel_left = 10 ** 8
    bad = 0
    empty_model = z3.Solver()
    empty_model.check()
    empty_model = empty_model.model()
    for i in range(n_val):
        tj = random_term(H.rng, depth=H.rng.randint(1, 4), max_index=6, holes=False)
        uj = random_term(H.rng, depth=H.rng.randint(1, 3), max_index=6, holes=False)
        c = H.rng.randint(0, 3)
        a = H.rng.randint(-3, 4)
        x = H.rng.randint(0, 4)
        s = H.rng.randint(0, 3)
        tv, uv = T.from_json(tj), T.from_json(uj)
        conc = T.Concretizer(ex, empty_model)
        got = it.call("de_bruijn", "signed_shift", [tv, c, ISz(a)])
        exp = replay.call({"op": "signed_shift", "term": tj, "cells": {}, "cutoff": c, "amount": a})
        gj = None if got.variant == "None" else conc.term(got.fields[0])
        if T.canon(gj) != T.canon(exp.get("result")):
            bad += 1
            H.mismatches.append({"label": "validate.signed_shift", "case": {"t": tj, "c": c, "a": a}, "detail": "interpreter %s, compiled %s" % (gj, exp)})
        got = it.call("de_bruijn", "open", [tv, x, uv, s])
        exp = replay.call({"op": "open", "term": tj, "cells": {}, "index": x, "insert": uj, "shift": s})
        if T.canon(conc.term(got)) != T.canon(exp.get("result")):
            bad += 1
            H.mismatches.append({"label": "validate.open", "case": {"t": tj, "x": x, "u": uj, "s": s}, "detail": "interpreter %s, compiled %s" % (conc.term(got), exp)})
        st = SetV()
        it.call("term", "free_variables", [tv, c, st])
        got = sorted(set(e for _, e in st.items))
        exp = replay.call({"op": "free_variables", "term": tj, "cutoff": c})
        if got != exp.get("result"):
            bad += 1
            H.mismatches.append({"label": "validate.free_variables", "case": {"t": tj, "c": c}, "detail": "interpreter %s, compiled %s" % (got, exp)})
        H.validated += 3
    ex.frames.pop()
    H.functions |= ex.functions_executed
    H.log("encoder validation: %d concrete runs compared with the compiled code, %d disagreements" % (H.validated, bad))

    # ---------------------------------------------------------------------------------------
    # 2. the laws, over symbolic templates
    configs = [("T(2,3)", 2, 3, 2, None)]
    if quick:
        configs.append(("T(3,1)", 3, 1, 2, ["L0", "L1", "L5", "L6", "L7"]))
    else:
        configs.append(("T(3,3)", 3, 3, 2, None))
    for name, depth, group, udepth, which in configs:
        run_config(H, name, depth, group, udepth, which)
    H.bounds.update({"terms": "hole-free term::Term templates; all constructors symbolic; %s" % ", ".join(c[0] for c in configs),
                     "inserted_term": "T(2,1)", "scalars": "cutoff, amounts, indices, shift: unbounded integers (>= 0 where unsigned)",
                     "outside": "deeper terms, groups of more than 3 definitions, terms with holes"})
    H.assumptions += ["hole-free terms (statement of C11)", "indices, cutoffs, amounts below 2^62 (no machine overflow)"]
    return H.finish()


def run_config(H, name, depth, group, udepth, which):
    c, a, aa, b, x, s, k = [z3.Int(n) for n in ("c", "a", "aa", "b", "x", "s", "k")]
    assumptions = [c >= 0, aa >= 0, b >= 0, x >= 0, s >= 0, k >= 0]
    ex, it = H.engine(assumptions=assumptions, solver_timeout_ms=600000)
    it.summarize_fns = {"signed_shift", "unsigned_shift", "open", "free_variables"}
    it.summarize_acc = {"free_variables": 2}
    alpha = [ct for ct in I.ALL_HOLE_FREE if not ct.startswith("Let") or I.let_n(ct) <= group]
    sp_t = I.InputSpace("t", depth, alpha)
    sp_u = I.InputSpace("u", udepth, [ct for ct in alpha if not ct.startswith("Let") or I.let_n(ct) <= 1])
    t, u = sp_t.root(), sp_u.root()
    v = {"t": t, "u": u, "c": c, "a": a, "aa": aa, "b": b, "x": x, "s": s, "k": k}
    cases = []

    def body(ex):
        ex.eq_cache = {}
        R = Refs(ex)
        impl = SymImpl(it)

        def check(label, prop):
            t0 = time.time()
            # case split on the root constructor keeps each query small
            ok = True
            for ct in sorted(ex.allowed(t), key=I.CTORS.index):
                fr = ex.f
                fr.solver.push()
                fr.solver.add(t.tag == I.CODE[ct])
                try:
                    if not ex.check(prop, label, info=lambda m: model_case(ex, m, v)):
                        ok = False
                finally:
                    fr.solver.pop()
            H.log("  %s %-44s %s (%.1fs)" % (name, label, "holds" if ok else "VIOLATED/UNKNOWN", time.time() - t0))
        laws(impl, R, ex, v, check, which)

    t0 = time.time()
    ex.explore(body)
    H.absorb(name, ex)
    H.log("%s: %d summaries, %d paths, %d obligations, %d discharged, %.1fs" % (
        name, ex.stats.summaries, ex.stats.summary_paths + ex.stats.paths, ex.stats.obligations, ex.stats.discharged, time.time() - t0))
    # 3. counterexamples: replay on the compiled code before reporting
    seen = set()
    for viol in ex.violations:
        case = viol.info
        key = (viol.label, json.dumps(case, sort_keys=True))
        if key in seen:
            continue
        seen.add(key)
        if sum(1 for k2 in seen if k2[0] == viol.label) > 3:
            continue
        reproduced, detail = confirm(H, viol.label, case)
        H.report(viol.label, case, reproduced, detail)
    if len(H.samples) < 8:
        m = z3.Solver()
        m.add(*assumptions)
        m.check()
        H.samples.append({"config": name, "example_input": "t ranges over all %s terms; e.g. obligations: %s" % (name, sorted(set(vv.label for vv in ex.violations)) or "all unsat")})


def model_case(ex, m, v):
    conc = T.Concretizer(ex, m)
    case = {"t": conc.term(v["t"]), "u": conc.term(v["u"])}
    for n in ("c", "a", "aa", "b", "x", "s", "k"):
        case[n] = T.mval(m, v[n])
    return case


def confirm(H, label, case):
    """Evaluate the violated law on the compiled code for the concrete counterexample."""
    law = label.split(".")[0]
    cx = ConcreteCtx()
    R = Refs(cx)
    impl = NativeImpl(H.get_replay())
    v = dict(case)
    v["t"] = JTerm(case["t"])
    v["u"] = JTerm(case["u"])
    failed = []

    def check(lbl, prop):
        if not concrete_truth(prop):
            failed.append(lbl)
    try:
        laws(impl, R, cx, v, check, [law])
    except NativeFailure as e:
        return True, "compiled code failed: %s" % (e,)
    if label in failed or failed:
        outs = "; ".join("%s -> %s" % (json.dumps({k: c[k] for k in c if k not in ("term", "insert", "cells")}), T.show(r["result"]) if isinstance(r.get("result"), dict) else r.get("result")) for c, r in impl.trace)
        return True, "law %s fails on the compiled code for t=%s u=%s c=%s a=%s aa=%s b=%s x=%s s=%s k=%s; calls: %s" % (
            failed, T.show(case["t"]), T.show(case["u"]), case["c"], case["a"], case["aa"], case["b"], case["x"], case["s"], case["k"], outs)
    return False, "law holds on the compiled code for this input"


if __name__ == "__main__":
    run_main(main)
