"""C12 -- unification succeeds only with a consistent, well-scoped solution.

unifier::unify (with collect_unifiers, signed_shift, normalize_weak_head, syntactically_equal, open)
is executed by path forking; hole cells are store locations, so every write through borrow_mut is
tracked per path.  Inputs: (a) pairs of independent terms with holes, (b) pattern/instance pairs
where the pattern is the instance with holes punched at symbolic positions with symbolic shifts,
in both argument orders, under definition contexts with and without definitions.
When unify returns true: (1) with the recorded solutions filled in, both sides are convertible for
the reference normaliser; (2) every solution only mentions variables in scope where its hole was
written; (3) the solution graph is acyclic; (4) the definitions context is unchanged.
Also: a hole-free term unifies with itself."""
import json
import os
import sys
import time

import z3

sys.path.insert(0, os.path.dirname(os.path.dirname(os.path.abspath(__file__))))

from gramsym.harness import Harness, run_main
from gramsym import inputs as I, terms as T
from gramsym.values import (Adt, Struct, TupleV, VecV, Str, Union, CellV, none, some, z_and, z_or, z_not, z_eq, is_sym,
                            InternalError)
from gramsym.explorer import PathAbort, FuelExhausted, Frame
from gramsym.interp import PanicEx
from gramsym.refcheck import RefChecker, Reject, Entry
from gramsym.refs import Refs, RefUnknown
from gramsym.lawlib import ConcreteCtx, empty_model, concrete_truth
from gramsym.termgen import random_program, random_term
from gramsym.parallel import parallel_explore
from gramsym.inputs import InputTerm, CODE, ARITY, let_n
import tc_common as TC

PID = "C12"

ALPHA = [c for c in I.ALL_HOLE_FREE if c not in ("Let3", "Let2")] + ["Unifier"]
ALPHA_NOHOLE = [c for c in ALPHA if c != "Unifier"]


class HoleSpace(I.InputSpace):
    """Terms with holes whose shift is any value between 0 and the number of binders in scope."""

    def __init__(self, prefix, budget, alphabet, scope):
        I.InputSpace.__init__(self, prefix, budget, alphabet, source_ranges=False, scope=scope)

    def extra_constraints(self, node, ex):
        return [z3.Or(node.tag != CODE["Unifier"], node.idx <= self.scope + node.binders(ex))]


class PatternSpace(HoleSpace):
    """A copy of an instance template in which any node may be replaced by a hole."""

    def __init__(self, prefix, instance_space, scope):
        self.instance = instance_space
        HoleSpace.__init__(self, prefix, instance_space.max_depth, lambda n: sorted(set(instance_space.alphabet(self.mirror(n))) | {"Unifier"}, key=I.CTORS.index), scope)

    def mirror(self, node):
        path = node.uid.split(".")[1:]
        m = self.instance.root()
        for i in path:
            m = m.kid(int(i))
        return m

    def name_for(self, node):
        return self.instance.name_for(self.mirror(node))

    def def_name(self, node, i):
        return self.instance.def_name(self.mirror(node), i)

    def extra_constraints(self, node, ex):
        m = self.mirror(node)
        ex.touch(m)
        hole = node.tag == CODE["Unifier"]
        same = z3.And(node.tag == m.tag, node.idx == m.idx, node.lit == m.lit, node.implicit == m.implicit)
        return HoleSpace.extra_constraints(self, node, ex) + [z3.Or(hole, same)]


def patch_on_decided():
    orig = InputTerm.on_decided

    def on_decided(self, new, ex):
        orig(self, new, ex)
        if isinstance(self.space, PatternSpace) and "Unifier" not in new:
            ex.restrict(self.space.mirror(self), frozenset(new))
    InputTerm.on_decided = on_decided


patch_on_decided()


# -------------------------------------------------------------------------------------------------
GAMMAS = [0, 1, 2, 3]


def gamma_options(ex):
    """Definition contexts: [], [None], [Some(lit)], [None, Some(lambda)]."""
    k = GAMMAS[ex.choose(len(GAMMAS))] if len(GAMMAS) > 1 else GAMMAS[0]
    if k == 0:
        return VecV(), []
    if k == 1:
        return VecV([none()]), [Entry(None, None, 0)]
    if k == 2:
        d = T.lit(z3.Int("gdef"))
        return VecV([some(TupleV([d, 1]))]), [Entry(None, d, 1)]
    d = T.mk("Lambda", ["gx", False, T.mk("Integer"), T.var("gx", 0)])
    return VecV([none(), some(TupleV([d, 1]))]), [Entry(None, None, 0), Entry(None, d, 2)]


def holes_reached(ex, it, t, depth, out, seen):
    """Hole occurrences (cell, shift, binder depth) in the part of t that is decided on this path."""
    if isinstance(t, InputTerm):
        cur = ex.allowed(t)
        if len(cur) != 1:
            return
        (ct,) = cur
        adt = t.as_adt(ct)
    elif isinstance(t, Struct):
        v = t.fields["variant"]
        if not isinstance(v, Adt):
            return
        adt = v
        ct = v.variant
        if ct == "Let":
            ct = "Let%d" % len(v.fields[0])
    else:
        return
    f = adt.fields
    if ct == "Unifier":
        out.append((f[0], f[1], depth))
        return
    if ct in ("Lambda", "Pi"):
        holes_reached(ex, it, f[2], depth, out, seen)
        holes_reached(ex, it, f[3], depth + 1, out, seen)
    elif ct.startswith("Let"):
        n = len(f[0])
        for d in f[0]:
            holes_reached(ex, it, d[1], depth + n, out, seen)
            holes_reached(ex, it, d[2], depth + n, out, seen)
        holes_reached(ex, it, f[1], depth + n, out, seen)
    elif ARITY.get(ct, 0) > 0:
        for x in f:
            holes_reached(ex, it, x, depth, out, seen)


def content_of(ex, cell):
    c = ex.cell_get(cell)
    if isinstance(c, Union):
        raise InternalError("merged cell content")
    return c.fields[0] if c.variant == "Some" else None


def cells_in(ex, t, acc):
    """Cells mentioned (syntactically) in a concrete-shaped term."""
    if isinstance(t, InputTerm):
        cur = ex.allowed(t)
        if len(cur) != 1:
            return
        (ct,) = cur
        adt = t.as_adt(ct)
    else:
        adt = t.fields["variant"]
        if not isinstance(adt, Adt):
            return
    if adt.variant == "Unifier":
        acc.append(adt.fields[0])
        return
    for x in adt.fields:
        if T.is_term(x):
            cells_in(ex, x, acc)
        elif isinstance(x, VecV):
            for d in x:
                cells_in(ex, d[1], acc)
                cells_in(ex, d[2], acc)


def obligations_after_success(ex, it, a, b, ctx_ref, scope, info, tag):
    # (3) acyclic
    occ = []
    holes_reached(ex, it, a, scope, occ, set())
    holes_reached(ex, it, b, scope, occ, set())
    for cell, s, d in occ:
        stack = [cell]
        visited = set()
        cyc = False
        while stack:
            c = stack.pop()
            con = content_of(ex, c)
            if con is None:
                continue
            acc = []
            cells_in(ex, con, acc)
            for c2 in acc:
                if c2 is cell:
                    cyc = True
                if id(c2) not in visited:
                    visited.add(id(c2))
                    stack.append(c2)
        if cyc:
            ex.check(False, tag + "U3.solution-graph-is-cyclic", info=info)
            return
    # (2) scope: the content of a hole written at depth d with shift s lives in the scope d - s
    R = Refs(ex, TC.concretize_ctor)
    R.follow_holes = True
    R.holes_neutral = True
    for cell, s, d in occ:
        con = content_of(ex, cell)
        if con is None:
            continue
        try:
            for g, idx in R.fv_occurrences(con, 0):
                ex.check(z3.Implies(g, idx < d - s) if not isinstance(g, bool) else (idx < d - s if g else True),
                         tag + "U2.solution-in-scope", info=info)
        except RefUnknown:
            ex.count("scope-skipped")
    # (1) the two sides are convertible once the solutions are filled in
    rc = RefChecker(ex, TC.concretize_ctor, fuel=1500)
    try:
        same = rc.conv(a, b, ctx_ref)
    except RefUnknown as u:
        ex.count("outside:" + u.why)
        return
    if not same:
        ex.check(False, tag + "U1.sides-not-convertible-after-success", info=info)
    else:
        ex.check(True, tag + "U1.sides-convertible")


def fv_occurrences_with_holes(R, t, c):
    return R.fv_occurrences(t, c)


def panic_outcome(ex, p, roots, gam, info, tag=""):
    """A panic inside unify: a template node under a *possible* binder may carry an index that is out
    of scope once its ancestor turns out not to bind -- then the harness, not gram, violated unify's
    precondition (well-scoped terms) and the path is outside the claim.  A panic on a well-scoped pair
    is reported."""
    m = ex.path_model()
    scoped = False
    if m is not None:
        case = case_of(ex, m, roots, gam)
        acc = set()
        _free(case["a"], 0, acc, case.get("cells", {}))
        _free(case["b"], 0, acc, case.get("cells", {}))
        scoped = all(v < len(gam) for v in acc)
    if scoped:
        ex.check(False, tag + "PANIC %s (%s.rs:%s)" % (p.msg, p.module, p.line), info=info)
    else:
        ex.count("outside:ill-scoped pair (precondition of unify)")


def _free(j, cutoff, acc, cells):
    c = j["v"]
    if c == "Variable":
        if j["index"] >= cutoff:
            acc.add(j["index"] - cutoff)
    elif c == "Unifier":
        # a hole of shift k stands for a term in the scope k binders up
        inner = cells.get(str(j.get("cell")))
        if inner is not None:
            _free(inner, max(0, cutoff - j.get("shift", 0)), acc, cells)
        elif j.get("shift", 0) > cutoff:
            acc.add(j["shift"] - cutoff - 1 + 10 ** 6)       # the hole itself lives outside the context
    elif c in ("Lambda", "Pi"):
        _free(j["kids"][0], cutoff, acc, cells)
        _free(j["kids"][1], cutoff + 1, acc, cells)
    elif c == "Let":
        n = len(j["defs"])
        for d in j["defs"]:
            _free(d["ann"], cutoff + n, acc, cells)
            _free(d["def"], cutoff + n, acc, cells)
        _free(j["body"], cutoff + n, acc, cells)
    else:
        for k in j.get("kids", []):
            _free(k, cutoff, acc, cells)


def run_pair(ex, it, a, b, roots, scope_of, tag):
    gam, ctx_ref = gamma_options(ex)
    before = list(gam)
    info = lambda m: case_of(ex, m, roots, gam)
    try:
        r = it.call("unifier", "unify", [a, b, gam])
    except FuelExhausted:
        ex.count("fuel")
        return
    except PanicEx as p:
        panic_outcome(ex, p, roots, before, info, tag)
        return
    ok = it.truth(r)
    # (4) context restored
    same_ctx = len(gam) == len(before) and all(x is y for x, y in zip(gam, before))
    if not same_ctx:
        ex.check(False, tag + "U4.context-changed", info=info)
    if not ok:
        ex.count("fail")
        return
    ex.count("success")
    obligations_after_success(ex, it, a, b, ctx_ref, len(gam), info, tag)


def case_of(ex, m, roots, gam):
    conc = T.Concretizer(ex, m, initial_cells=True)
    out = {"a": conc.term(roots[0]), "b": conc.term(roots[1])}
    ctx = []
    for e in gam:
        if e.variant == "None":
            ctx.append(None)
        else:
            d, off = e.fields[0]
            ctx.append({"term": conc.term(d), "offset": T.mval(m, off)})
    out["defs_ctx"] = ctx
    out["cells"] = conc.cells_table()
    return out


def make_independent(H, ka, kb):
    def make():
        ex, it = H.engine(node_budget=ka + kb - 2, solver_timeout_ms=120000)
        ex.fuel = 40000
        it.max_call_depth = 500
        # scope 2: the largest context offered below
        sa = HoleSpace("a", ka, ALPHA, 0)
        sb = HoleSpace("b", kb, ALPHA, 0)
        a, b = sa.root(), sb.root()

        def body(ex):
            it.call_depth = 0
            gam_len_hint = None
            run_pair_scoped(ex, it, a, b, sa, sb, "I.")
        return ex, body, None
    return make


def run_pair_scoped(ex, it, a, b, sa, sb, tag):
    # the scope of the templates is the length of the context chosen on this path
    gam, ctx_ref = gamma_options(ex)
    sa.scope = len(gam)
    sb.scope = len(gam)
    before = list(gam)
    roots = (a, b)
    info = lambda m: case_of(ex, m, roots, before)
    try:
        r = it.call("unifier", "unify", [a, b, gam])
    except FuelExhausted:
        ex.count("fuel")
        return
    except PanicEx as p:
        panic_outcome(ex, p, roots, before, info, tag)
        return
    ok = it.truth(r)
    if not (len(gam) == len(before) and all(x is y for x, y in zip(gam, before))):
        ex.check(False, tag + "U4.context-changed", info=info)
        return
    if not ok:
        ex.count("fail")
        return
    ex.count("success")
    obligations_after_success(ex, it, a, b, ctx_ref, len(gam), info, tag)
    if len(ex.samples) < 3 and ex.stats.paths % 37 == 0:
        m = ex.path_model()
        if m is not None:
            c = case_of(ex, m, roots, gam)
            ex.samples.append({"unify": [T.show(c["a"], c["cells"]), T.show(c["b"], c["cells"])], "context": len(gam), "result": True})


def make_punched(H, k, swap):
    def make():
        ex, it = H.engine(node_budget=2 * k - 2, solver_timeout_ms=120000)
        ex.fuel = 40000
        it.max_call_depth = 500
        si = HoleSpace("i", k, ALPHA_NOHOLE, 0)
        sp = PatternSpace("q", si, 0)
        inst, pat = si.root(), sp.root()

        def body(ex):
            it.call_depth = 0
            if swap:
                run_pair_scoped(ex, it, inst, pat, si, sp, "P(instance,pattern).")
            else:
                run_pair_scoped(ex, it, pat, inst, sp, si, "P(pattern,instance).")
        return ex, body, None
    return make


def make_reflexive(H, k):
    def make():
        ex, it = H.engine(node_budget=k - 1, solver_timeout_ms=120000)
        ex.fuel = 40000
        it.max_call_depth = 500
        si = HoleSpace("r", k, ALPHA_NOHOLE, 0)
        t = si.root()

        def body(ex):
            it.call_depth = 0
            gam, ctx_ref = gamma_options(ex)
            si.scope = len(gam)
            info = lambda m: case_of(ex, m, (t, t), gam)
            try:
                r = it.call("unifier", "unify", [t, t, gam])
            except FuelExhausted:
                ex.count("fuel")
                return
            except PanicEx as p:
                panic_outcome(ex, p, (t, t), list(gam), info)
                return
            ex.check(it.truth(r), "R.hole-free-term-unifies-with-itself", info=info)
        return ex, body, None
    return make


# -------------------------------------------------------------------------------------------------
def native_unify(replay, case):
    return replay.call({"op": "unify", "a": case["a"], "b": case["b"], "defs_ctx": case["defs_ctx"], "cells": case["cells"]})


def confirm(H, label, case):
    r = native_unify(H.get_replay(), case)
    if "result" not in r:
        return True, "compiled unify failed: %s" % (r,)
    shown = "unify(%s, %s) in a context of %d" % (T.show(case["a"], case["cells"]), T.show(case["b"], case["cells"]), len(case["defs_ctx"]))
    if "U4." in label:
        n = len(r.get("defs_ctx", []))
        return (n != len(case["defs_ctx"])), "%s returns %s and leaves a context of %d entries" % (shown, r["result"], n)
    if label.startswith("R."):
        return (not r["result"]), "%s returns %s" % (shown, r["result"])
    if not r["result"]:
        return False, "%s fails on the compiled code" % shown
    cx = ConcreteCtx()
    cell_objs = {}
    a = T.from_json(r["a"], r["cells"], cell_objs)
    b = T.from_json(r["b"], r["cells"], cell_objs)
    ctx_ref = []
    for i, e in enumerate(case["defs_ctx"]):
        if e is None:
            ctx_ref.append(Entry(None, None, i))
        else:
            ctx_ref.append(Entry(None, T.from_json(e["term"], r["cells"], cell_objs), i + e["offset"]))
    failed = []

    class Probe:
        def check(self, prop, lbl, info=None):
            if not concrete_truth(prop if not isinstance(prop, bool) else prop):
                failed.append(lbl)
            return True

        def count(self, *a, **k):
            pass
    # evaluate the same obligations on the compiled result
    orig_check, orig_count = cx.check, cx.count
    cx.check = lambda prop, lbl, info=None: Probe().check(prop, lbl)
    cx.count = lambda *a, **k: None
    obligations_after_success(cx, None, a, b, ctx_ref, len(case["defs_ctx"]), None, "")
    sols = {k: (T.show(v, r["cells"]) if v else None) for k, v in r["cells"].items()}
    if failed:
        return True, "%s succeeds with solutions %s but %s" % (shown, sols, failed)
    return False, "%s succeeds with solutions %s and the obligations hold on the compiled result" % (shown, sols)


def validate(H, n):
    if H.worker:
        return
    replay = H.get_replay()
    ex, it = H.engine()
    ex.frames.append(Frame(ex._new_solver()))
    em = empty_model()
    bad = 0
    res = {True: 0, False: 0}
    for i in range(n):
        ex.fuel_left = 10 ** 6
        it.call_depth = 0
        cells = {}
        aj = random_term(H.rng, depth=H.rng.randint(1, 3), max_index=0, holes=True, cells=cells)
        bj = random_term(H.rng, depth=H.rng.randint(1, 3), max_index=0, holes=True, cells=cells)
        if H.rng.random() < 0.4:
            bj = json.loads(json.dumps(aj))
            # punch a hole somewhere
            if bj.get("kids"):
                bj["kids"][0] = {"v": "Unifier", "cell": "p", "shift": 0, "sr": None}
                cells["p"] = None
        # closed terms only: indices are 0 and only under binders; keep it simple: context of one entry
        ctx = [None]
        cell_objs = {}
        av, bv = T.from_json(aj, cells, cell_objs), T.from_json(bj, cells, cell_objs)
        gam = VecV([none()])
        try:
            got = it.truth(it.call("unifier", "unify", [av, bv, gam]))
        except (FuelExhausted, PanicEx):
            continue
        exp = replay.call({"op": "unify", "a": aj, "b": bj, "defs_ctx": ctx, "cells": cells})
        if "result" not in exp:
            continue
        res[got] += 1
        conc = T.Concretizer(ex, em)
        gj = T.canon(T.inline_cells([conc.term(av), conc.term(bv)], conc.cells_table()), drop_sr=True)
        wj = T.canon(T.inline_cells([exp["a"], exp["b"]], exp["cells"]), drop_sr=True)
        if got != exp["result"] or gj != wj:
            bad += 1
            H.mismatches.append({"label": "validate.unify", "case": {"a": aj, "b": bj, "cells": cells},
                                 "detail": "interpreter %s %s, compiled %s %s" % (got, json.dumps(gj)[:400], exp["result"], json.dumps(wj)[:400])})
        H.validated += 1
    ex.frames.pop()
    H.functions |= ex.functions_executed
    H.log("encoder validation: %d unify calls through interpreter and compiled code (%s), %d disagreements" % (H.validated, res, bad))


def main():
    H = Harness(PID)
    quick = H.tier == "quick"
    if H.args.replay:
        with open(H.args.replay) as fh:
            rec = json.load(fh)
        reproduced, detail = confirm(H, rec["label"], rec["case"])
        print(("REPRODUCED: " if reproduced else "NOT REPRODUCED: ") + detail)
        return 1 if reproduced else 0
    validate(H, 200 if quick else 1000)
    import c03
    ind = (2, 2) if quick else (3, 3)
    pk = 2 if quick else 3
    parts = [("independent pairs %d+%d nodes" % ind, make_independent(H, *ind)),
             ("punched pattern vs instance, %d nodes" % pk, make_punched(H, pk, False)),
             ("instance vs punched pattern, %d nodes" % pk, make_punched(H, pk, True)),
             ("reflexivity, %d nodes" % (3 if quick else 4), make_reflexive(H, 3 if quick else 4))]
    for name, mk in parts:
        t0 = time.time()
        m = parallel_explore(mk, H.jobs)
        H.absorb_merged(name, m)
        H.log("%s: %d paths %s, %d obligations, %d discharged, %d workers, %.1fs" % (
            name, m.stats.get("paths", 0), m.counters, m.stats.get("obligations", 0), m.stats.get("discharged", 0), m.workers, time.time() - t0))
        c03.handle(H, m.violations, confirm_fn=confirm, classify_fn=lambda l, c: None)
    H.bounds.update({"terms": "node budgets as named per part; groups of at most 1 definition; holes with any shift between 0 and the binder depth; contexts [], [parameter], [definition], [parameter, definition]",
                     "outside": "larger terms, holes shared between several occurrences, reference conversion out of fuel"})
    H.assumptions += ["hole shifts do not exceed the number of binders in scope (as the parser and checker produce them)"]
    return H.finish()


if __name__ == "__main__":
    run_main(main)
