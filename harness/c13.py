"""C13 -- output is a deterministic function of the input file.

The only in-process source of run-to-run variation is the iteration order of std's RandomState hash
containers.  In the executor every iteration over a HashSet/HashMap visits the elements in an order
that is a *decision of the search*.  The term-level pipeline (parser::check_definitions, then
type_check and evaluate) is run twice on the same symbolic program, with independent iteration
orders; the explorer looks for a pair of orders -- and the solver for index values -- under which
anything observable differs: the number of diagnostics, their order, their arguments, their ranges.
Containers used only for membership never produce an iteration event; the check also records that
no stage after the definition-order check iterates a hash container at all."""
import json
import os
import sys
import time

import z3

sys.path.insert(0, os.path.dirname(os.path.dirname(os.path.abspath(__file__))))

from gramsym.harness import Harness, run_main
from gramsym import inputs as I, terms as T
from gramsym.values import (Adt, Struct, TupleV, VecV, Str, Union, none, some, z_and, z_or, z_not, z_eq, is_sym, InternalError)
from gramsym.explorer import PathAbort, FuelExhausted, Frame
from gramsym.interp import PanicEx
from gramsym.parallel import parallel_explore
import tc_common as TC
import c03

PID = "C13"


def family(n, quick):
    """Groups of n definitions (annotations omitted) whose definitions are literals, variables,
    unary/binary nodes over variables, or lambdas over those; the body is a variable."""
    defs = ["IntegerLiteral", "Variable", "Negation", "Sum", "Lambda"] if quick else ["IntegerLiteral", "Variable", "Negation", "Sum", "Application", "Lambda"]
    if quick and n >= 3:
        defs = ["IntegerLiteral", "Sum"]

    def alpha(node):
        if node.depth == 1:
            return ["Let%d" % n]
        if node.depth == 2:
            if node.slot == 2 * n:
                return ["Variable"]
            return ["Unifier"] if node.slot % 2 == 0 else defs
        if node.parent is not None and node.slot == 0 and node.depth == 3:
            # first child: lambda domain or first operand
            return ["Variable"] if (quick and n >= 3) else ["Variable", "Integer"]
        return ["Variable"]
    return alpha


def signature(it, errs):
    out = []
    for e in errs:
        e = it.deref(e)
        msg = e.fields.get("msg_parts")
        parts = tuple(str(p) for p in msg.parts) if isinstance(msg, Str) and msg.parts else (str(msg),)
        rng = e.fields.get("range")
        r = None
        if rng is not None:
            rng = it.deref(rng)
            r = (rng.fields["start"], rng.fields["end"])
        out.append((parts, r))
    return out


def sig_equal(a, b):
    if len(a) != len(b):
        return False
    ok = True
    for (pa, ra), (pb, rb) in zip(a, b):
        if pa != pb:
            return False
        if (ra is None) != (rb is None):
            return False
        if ra is not None:
            ok = z_and(ok, z_eq(ra[0], rb[0]), z_eq(ra[1], rb[1]))
    return ok


def make_factory(H, n, quick):
    alpha = family(n, quick)

    def make():
        ex, it = H.engine(solver_timeout_ms=120000)
        ex.fuel = 6000
        it.max_call_depth = 600
        it.hash_order_nondet = True
        sp = TC.ProgramSpace("p", 3, alpha, scope=0)
        root = sp.root()

        def run_once(ex):
            errs = VecV()
            it.call("parser", "check_definitions", [none(), Str(""), root, 0, errs])
            return signature(it, errs)

        def body(ex):
            it.call_depth = 0
            info = lambda m: TC.input_case(ex, m, root)
            try:
                s1 = run_once(ex)
                s2 = run_once(ex)
            except FuelExhausted:
                ex.count("fuel")
                return
            except PanicEx as p:
                ex.check(False, "PANIC %s (%s.rs:%s)" % (p.msg, p.module, p.line), info=info)
                return
            iters = sum(1 for k, _ in ex.f.events if k == "hash_iteration")
            ex.count("errors:%d" % len(s1))
            ex.check(sig_equal(s1, s2), "D1.diagnostics-independent-of-hash-iteration-order (%d vs %d errors)" % (len(s1), len(s2)), info=info)
            if s1:
                return
            # accepted by the order check: the rest of the pipeline must not iterate hash containers
            before = iters
            try:
                res, _, _ = TC.call_type_check(it, root)
                if res.variant == "Ok":
                    it.call("evaluator", "evaluate", [res.fields[0][0]])
            except (FuelExhausted, PanicEx):
                return
            after = sum(1 for k, _ in ex.f.events if k == "hash_iteration")
            ex.check(after == before, "D2.no-hash-iteration-in-type-check-or-evaluate", info=info)
        return ex, body, None
    return make


def tokenizer_factory(H, n):
    """D3: tokenize, run twice on the same symbolic text with independent hash-iteration orders, reports
    the same diagnostics in the same order.  Texts of n characters whose first and last are unexpected
    symbols (so that at least two diagnostics exist), the middle ones blanks, letters or symbols."""
    from gramsym import text as X

    def make():
        ex, it = H.engine(solver_timeout_ms=120000)
        ex.fuel = 20000
        it.hash_order_nondet = True
        tm = X.TextModel(H.get_replay(), n=n)
        ill = [36, 64, 0xA7]
        mid = [32, 120, 36, 10]

        def run_once(ex):
            r = it.resolve(it.call("tokenizer", "tokenize", [none(), tm.text]))
            if r.variant != "Err":
                return None
            out = []
            for e in r.fields[0]:
                e = it.deref(e)
                rng = e.fields.get("range")
                rng = it.deref(rng) if rng is not None else None
                out.append(None if rng is None else (rng.fields["start"], rng.fields["end"]))
            return out

        def body(ex):
            it.call_depth = 0
            for c in tm.domain():
                ex.add(c)
            for k, cp in enumerate(tm.cps):
                al = ill if k in (0, n - 1) else mid
                ex.add(z3.Or(*[cp == a for a in al]))
            it.text = tm
            info = lambda m: {"text": tm.text.concrete(m)}
            try:
                s1 = run_once(ex)
                s2 = run_once(ex)
            except PanicEx as p:
                ex.check(False, "PANIC %s (%s.rs:%s)" % (p.msg, p.module, p.line), info=info)
                return
            if s1 is None or s2 is None:
                ex.check(s1 is None and s2 is None, "D3.tokenizer-verdict-independent-of-hash-order", info=info)
                return
            ex.count("errors:%d" % len(s1))
            same = len(s1) == len(s2)
            if same:
                for a, b in zip(s1, s2):
                    if (a is None) != (b is None):
                        same = False
                        break
                    if a is not None:
                        same = z_and(same, z_eq(a[0], b[0]), z_eq(a[1], b[1]))
            ex.check(same, "D3.tokenizer-diagnostics-independent-of-hash-iteration-order (%d vs %d errors)" % (len(s1), len(s2)), info=info)
        return ex, body, None
    return make


def confirm_tokenizer(H, label, case):
    replay = H.get_replay()
    outs = {}
    for i in range(60):
        r = replay.call({"op": "tokenize", "source": case["text"]})
        key = json.dumps(r.get("err", r))
        outs[key] = outs.get(key, 0) + 1
    if len(outs) > 1:
        return True, "tokenize(%r): 60 runs of the compiled tokenizer gave %d different diagnostic sequences (%s)" % (case["text"], len(outs), sorted(outs.values()))
    return False, "tokenize(%r): 60 runs gave identical output" % case["text"]


def confirm(H, label, case):
    """Native: run the compiled check_definitions many times (every HashSet gets fresh random keys)
    and look for two different outputs."""
    replay = H.get_replay()
    outs = {}
    for i in range(60):
        r = replay.call({"op": "check_definitions", "term": case["t"], "cells": case.get("cells", {}), "depth": 0, "source": " " * 200})
        if "errors" not in r:
            return True, "compiled check_definitions failed: %s" % (r,)
        outs.setdefault(json.dumps(r["errors"]), 0)
        outs[json.dumps(r["errors"])] += 1
    shown = T.show(case["t"], case.get("cells"))
    if len(outs) > 1:
        return True, "program %s: 60 runs of the compiled definition-order check gave %d different diagnostic sequences (%s)" % (shown, len(outs), sorted(outs.values()))
    return False, "program %s: 60 runs gave identical output" % shown


def main():
    H = Harness(PID)
    quick = H.tier == "quick"
    if H.args.replay:
        with open(H.args.replay) as fh:
            rec = json.load(fh)
        fn = confirm_tokenizer if rec["label"].startswith("D3") else confirm
        reproduced, detail = fn(H, rec["label"], rec["case"])
        print(("REPRODUCED: " if reproduced else "NOT REPRODUCED: ") + detail)
        return 1 if reproduced else 0
    import c01
    c01.validate_order(H, 100 if quick else 500)
    sizes = [2, 3] if quick else [2, 3, 4]
    for n in sizes:
        name = "groups of %d definitions, two independent iteration orders" % n
        t0 = time.time()
        m = parallel_explore(make_factory(H, n, quick or n == 4), H.jobs)
        H.absorb_merged(name, m)
        H.log("%s: %d paths %s, %d obligations, %d discharged, %d workers, %.1fs" % (
            name, m.stats.get("paths", 0), m.counters, m.stats.get("obligations", 0), m.stats.get("discharged", 0), m.workers, time.time() - t0))
        c03.handle(H, m.violations, confirm_fn=confirm, classify_fn=lambda l, c: None)
    for n in (2, 3):
        name = "tokenize on texts of %d characters with unexpected symbols, two independent iteration orders" % n
        t0 = time.time()
        m = parallel_explore(tokenizer_factory(H, n), min(H.jobs, 4))
        H.absorb_merged(name, m)
        H.log("%s: %d paths %s, %d obligations, %d discharged, %d workers, %.1fs" % (
            name, m.stats.get("paths", 0), m.counters, m.stats.get("obligations", 0), m.stats.get("discharged", 0), m.workers, time.time() - t0))
        c03.handle(H, m.violations, confirm_fn=confirm_tokenizer, classify_fn=lambda l, c: None)
    H.bounds["tokenizer"] = "texts of 2-3 characters whose first and last are unexpected symbols ($, @, a non-ASCII symbol)"
    H.samples.append({"family": "x = f(y, z); y = ..; z = ..; body  with symbolic references", "orders": "every pair of iteration orders of every hash set iterated"})
    H.bounds.update({"programs": "definition groups of %s definitions over literals, variables, negation, sums, calls, lambdas; which definition mentions which is symbolic" % sizes,
                     "outside": "separate process launches, environment and colour settings (main.rs), the packrat cache (never iterated)"})
    H.assumptions += ["hash iteration order is the only in-process nondeterminism (no threads, clocks or randomness are used by the library stages)"]
    return H.finish()


if __name__ == "__main__":
    run_main(main)
