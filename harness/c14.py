"""C14 -- gram handles every input without crashing and reports failure faithfully.

Decided by executing the real stages on symbolic inputs; every panic site (unwrap, explicit panic!,
slice and index bounds, checked arithmetic) raises in the executor and becomes a reported violation:

P  parser::parse (packrat parser, error collection, re-association, name resolution, definition
   order) on EVERY sequence of up to N tokens: token kinds are solver variables refined only when the
   parser inspects them, so a path stands for a whole product of kinds.  Obligations: no panic (P0),
   the call finishes within the fuel bound (P2), and the result is Ok or a NON-EMPTY error list (P1).
K  tokenizer::tokenize on every text of up to 3/4 characters (the exploration of C09): no panic, and a
   rejection carries at least one error.
S  the term-level stages on symbolic programs: type_check (C03's exploration), resolve_variables
   (C08's): no panic; a rejection carries at least one error.
L  error::listing (C15's exploration): no slice off a character boundary, no underflow.

M  the process glue of src/main.rs (main, entry, run, collect_errors, throw, Display for Error) with
   the command line, the file system and the stage outcomes as solver variables (harness/c14m.py):
   exit status, what goes to stdout and to stderr, no panic.

Outside: stack exhaustion on deeply nested input; clap's own argument handling; colour."""
import json
import os
import sys
import time

import z3

sys.path.insert(0, os.path.dirname(os.path.dirname(os.path.abspath(__file__))))

from gramsym.harness import Harness, run_main
from gramsym import terms as T, tokens as K
from gramsym.parallel import parallel_explore
import tc_common as TC
import parse_common as PC
import c03
import c09

PID = "C14"


def parse_obligations(ex, it, st, out):
    info = lambda m: PC.case_of(ex, st, m)
    if "panic" in out:
        p = out["panic"]
        ex.check(False, "P0.PANIC %s (%s.rs:%s)" % (p.msg, p.module, p.line), info=info)
        return
    if "fuel" in out:
        ex.check(False, "P2.parse-did-not-finish-within-the-fuel-bound", info=info)
        return
    r = out["result"]
    if r.variant == "Err":
        ex.count("rejected")
        ex.check(len(r.fields[0]) > 0, "P1.rejected-with-an-empty-error-list", info=info)
    else:
        ex.count("accepted")
        ex.check(True, "P1.accepted")


def confirm_parse(H, label, case):
    """Native: spell the tokens into source text and run the compiled tokenizer and parser."""
    replay = H.get_replay()
    text = case["text"]
    kinds = PC.native_kinds(replay, text)
    if kinds != case["kinds"]:
        return False, "the text %r tokenizes to %s, not to the token sequence of the counterexample %s" % (text, kinds, case["kinds"])
    t0 = time.time()
    r = replay.call({"op": "front", "source": text})
    if "panic" in r or "crash" in r:
        return True, "gram panics on %r: %s" % (text, r.get("panic") or r.get("crash"))
    if label.startswith("P2"):
        return (time.time() - t0 > 20), "parsing %r took %.1fs" % (text, time.time() - t0)
    if label.startswith("P1") and r.get("stage") == "parse" and len(r.get("err", [])) == 0:
        return True, "parse(%r) fails with an empty error list" % text
    return False, "the compiled parser handles %r: %s" % (text, str(r)[:200])


def keep(m, prefixes):
    m.violations = [v for v in m.violations if v[0].startswith(prefixes)]
    return m


def main():
    H = Harness(PID)
    quick = H.tier == "quick"
    if H.args.replay:
        with open(H.args.replay) as fh:
            rec = json.load(fh)
        lab = rec["label"]
        if lab.startswith("M"):
            import c14m
            fn = c14m.confirm
        elif lab.startswith("P"):
            fn = confirm_parse
        elif lab.startswith("L"):
            import c15
            fn = c15.confirm_listing
        elif lab.startswith("T") or "tokenize" in lab:
            fn = c09.confirm
        elif lab.startswith("R"):
            import c08
            fn = c08.confirm
        else:
            fn = c03.confirm
        reproduced, detail = fn(H, lab, rec["case"])
        print(("REPRODUCED: " if reproduced else "NOT REPRODUCED: ") + detail)
        return 1 if reproduced else 0
    only = os.environ.get("C14_PARTS", "MPKSL")
    first, last = c09.first_last()

    def run(name, mk, confirm_fn, prefixes=None):
        t0 = time.time()
        m = parallel_explore(mk, H.jobs)
        if prefixes:
            keep(m, prefixes)
        H.absorb_merged(name, m)
        H.log("%s: %d paths %s, %d obligations, %d discharged, %d workers, %.1fs" % (
            name, m.stats.get("paths", 0), m.counters, m.stats.get("obligations", 0), m.stats.get("discharged", 0), m.workers, time.time() - t0))
        c03.handle(H, m.violations, confirm_fn=confirm_fn, classify_fn=lambda l, c: None)

    if "M" in only and not H.worker:
        import c14m
        c14m.run_part(H)
    if "P" in only:
        PC.validate_parser(H, 40 if quick else 200)
        nmax = int(os.environ.get("C14_N", "0")) or (4 if quick else 5)
        for n in range(0, nmax + 1):
            run("parse on every sequence of %d tokens" % n, PC.parser_factory(H, n, parse_obligations, first, last), confirm_parse)
        H.bounds["parser"] = "every token sequence of 0..%d tokens over all 29 token kinds (identifier names symbolic over 2 names, literal values symbolic); a line-break terminator only where the tokenizer emits one" % nmax
    if "K" in only:
        n9 = 3 if quick else 4
        run("tokenize on every text of %d characters (C09 exploration)" % n9, c09.make_factory(H, n9, first, last), c09.confirm, prefixes=("PANIC", "T1.errors-non-empty"))
        H.bounds["tokenizer"] = "texts of %d code points over ASCII and 12 non-ASCII representatives" % n9
    if "S" in only:
        import c08
        budget = 4
        run("type_check on programs of <= %d nodes (C03 exploration)" % budget, c03.make_factory(H, budget, TC.WITH_HOLES, 60000, c03.c03_obligations), c03.confirm, prefixes=("PANIC", "A2"))
        b8 = 5 if quick else 6
        run("resolve_variables on syntax trees of <= %d nodes (C08 exploration)" % b8, c08.make_factory(H, b8, True), c08.confirm, prefixes=("PANIC",))
        H.bounds["term-level stages"] = "type_check on closed programs of <= %d nodes; resolve_variables on syntax trees of <= %d nodes" % (budget, b8)
    if "L" in only:
        import c15
        nl = 5 if quick else 7
        run("listing on texts of %d characters (C15 exploration)" % nl, c15.listing_factory(H, nl), c15.confirm_listing, prefixes=("L0",))
        H.bounds["listing"] = "texts of %d code points, token-shaped ranges" % nl
    H.bounds["outside"] = "clap's own argument errors, thread creation failure, colour handling; longer token sequences and texts; stack exhaustion on deeply nested input; divergence of user programs (evaluate/normalize are C05/C06's subject)"
    H.assumptions += ["token sequences are those the tokenizer can produce: a line-break terminator appears only between a token that can end an expression and one that can begin one (established by C09/C10 on the real tokenizer)",
                      "panics are those the executor models: explicit panic!/unwrap/expect, index and slice bounds, RefCell borrow rules, checked integer arithmetic"]
    return H.finish()


if __name__ == "__main__":
    run_main(main)
