"""C14, part M -- the process glue of src/main.rs: exit status, standard output, standard error.

`main`, `entry` and `run` are executed by the same interpreter as every other stage, on the AST
exported from /repo/src/main.rs on this run.  What varies is the *environment*: the command line
clap hands over, whether the file can be read, and the outcome of every stage -- each an integer
solver variable constrained to its range, so that a counterexample is an assignment of outcomes.
The stages themselves are replaced by nondeterministic stubs that honour their contracts (C14's
other parts and C03/C09/C07 establish those on the real stages): `Ok(..)` or `Err` with a NON-EMPTY
list of 1..3 errors whose messages are drawn from the message shapes `error::throw` produces (with
and without a listing, i.e. ending in an overline row or not); `evaluate` fails with one error.
`error::throw`, `Display for Error`, the `collect_errors` closure (fold / format! / split /
next_back / chars().all / trim) run as written, on concrete strings.

Process model: println!/eprintln! append to stdout/stderr event lists, `exit(n)` ends the run with
status n, returning from `main` is status 0, `thread::Builder::spawn` runs the closure (a panic in it
surfaces at `join`), `Cli::parse()` returns one of the four shapes clap can produce.

Obligations (every combination of command-line shape, failing stage, error count and shapes):
  M0 no panic in the glue;
  M1 a failing stage => exit status 1, NOTHING on stdout, stderr non-empty, carries `[Error]`, and
     contains the message of every error the stage returned, in order, with nothing between them
     but line breaks (no stage after the failing one runs: later outcome variables stay unread);
  M2 all stages succeed => status 0, nothing on stderr; `check` prints the elaborated term and type,
     `run`/bare path prints the value and nothing else;
  M3 `check` never evaluates the program.
Every violation is replayed on the real binary (built from the same tree) with a witness file that
drives the real stages into the same outcome; the same binary runs validate the model on every run.
Outside: invalid UTF-8 is `read_to_string` failing (covered as 'file cannot be read', confirmed
natively with an invalid-UTF-8 file); clap's own argument errors; thread creation failure; colour."""
import hashlib
import json
import os
import subprocess
import sys
import tempfile
import time

import z3

sys.path.insert(0, os.path.dirname(os.path.dirname(os.path.abspath(__file__))))

from gramsym.loader import load_ast, SOURCE_FILES, REPO, VERIF, cargo_env
from gramsym.explorer import Explorer, FuelExhausted
from gramsym.interp import Interp, PanicEx, IterV
from gramsym.values import (Adt, Struct, TupleV, VecV, Str, Char, Opaque, UNIT, InternalError, some, none, ok, err)
from gramsym import methods

OVER = "\u203e"
# message shapes of error::throw (colour off): without a listing, with a one-line listing (ends in an
# overline row), with a two-line listing
SHAPES = [
    "[Error] [`f.g`] alpha.",
    "[Error] [`f.g`] beta:\n\n1 | x + y\n        " + OVER,
    "[Error] [`f.g`] gamma:\n\n2 | (a\n3 |  b)\n    " + OVER * 2,
]
STAGES = ["read", "tokenize", "parse", "type_check", "evaluate"]
CLI_SHAPES = ["path", "check", "run", "completion"]


class ExitEx(Exception):
    def __init__(self, code):
        self.code = code


class ConcreteStrings:
    """`it.text` for this part: str methods on concrete strings."""

    @staticmethod
    def s_of(v):
        if isinstance(v, Str) and v.s is not None:
            return v.s
        if isinstance(v, str):
            return v
        raise InternalError("string method on a non-concrete string %r" % (v,))

    def method(self, it, name, recv, args, e, mod):
        s = self.s_of(recv)
        if name == "split":
            sep = args[0]
            if not isinstance(sep, Char) or not isinstance(sep.v, int):
                raise InternalError("split by a non-literal separator")
            return IterV([Str(p) for p in s.split(chr(sep.v))])
        if name == "chars":
            return IterV([Char(ord(c)) for c in s])
        if name == "trim_end":
            return Str(s.rstrip())
        raise InternalError("text method %s (glue)" % name)

    def slice(self, it, base, rng, e, mod):
        if isinstance(base, VecV) and rng.lo is None and rng.hi is None:
            return base
        raise InternalError("slice (glue)")

    def str_is_empty(self, it, r):
        return len(self.s_of(r)) == 0

    def str_len(self, it, r):
        return len(self.s_of(r).encode())


def piece_text(p):
    """A piece written by Display/format!: text, or an integer literal with a concrete value."""
    if isinstance(p, str):
        return p
    if isinstance(p, tuple) and p[0] == "int":
        v = p[1].v if hasattr(p[1], "v") else p[1]
        if isinstance(v, int):
            return str(v)
    return None


def build_interp(H):
    ast, hashes = load_ast(SOURCE_FILES + ["main"])
    H.hashes.update(hashes)
    ex = Explorer(solver_timeout_ms=60000)
    it = Interp(ast, ex)
    it.text = ConcreteStrings()
    it.methods = dict(it.methods)
    it.builtin_calls = dict(it.builtin_calls)
    io = {"stdout": [], "stderr": [], "called": [], "env": None}

    # ---- format!: concrete when every piece is
    orig_format = it.format

    def fmt(args):
        r = orig_format(args)
        if r.s is None:
            out = []
            try:
                it.display_value(r, out)
            except InternalError:
                return r
            ps = [piece_text(p) for p in out]
            if all(p is not None for p in ps):
                return Str("".join(ps))
        return r
    it.format = fmt

    def printer(stream):
        def h(it_, e, env, mod):
            args = [it.eval(x, env, mod) for x in e["args"]]
            out = []
            if args:
                it.render_format(args[0], args[1:], lambda nm: it.lookup_capture(nm, env, mod), out)
            ps = [piece_text(p) for p in out]
            if not all(p is not None for p in ps):
                raise InternalError("%s of a non-concrete value: %r" % (stream, out))
            io[stream].append("".join(ps) + "\n")
            return UNIT
        return h
    it.macro_hooks["println"] = printer("stdout")
    it.macro_hooks["eprintln"] = printer("stderr")

    # ---- the environment: solver variables
    def outcome(name, hi):
        v = z3.Int("env_" + name)
        guards = [v == k for k in range(hi)]
        return ex.decide(guards)

    LISTINGS = [None, "1 | x + y\n        " + OVER, "2 | (a\n3 |  b)\n    " + OVER * 2]

    def real_error(stage, i, k):
        """An error as the stages build them: the real error::throw with a message, the source path
        and one of the listing shapes."""
        lst = LISTINGS[k]
        return it.call("error", "throw", [Str("%s%d failed." % (stage, i)), some(Str("f.g")), none() if lst is None else some(Str(lst)), none()])

    def stage_errors(stage):
        n = 1 + outcome(stage + "_errors", 3)
        out = VecV()
        for i in range(n):
            k = outcome("%s_shape%d" % (stage, i), len(LISTINGS))
            out.append(real_error(stage, i, k))
        return out

    def message_of(e):
        m = it.deref(e).fields["message"]
        m = it.deref(m)
        if not (isinstance(m, Str) and m.s is not None):
            raise InternalError("non-concrete error message %r" % (m,))
        return m.s

    def stage_stub(stage, okval):
        def stub(it_, args):
            io["called"].append(stage)
            if outcome(stage + "_fails", 2) == 0:
                return ok(okval)
            errs = stage_errors(stage)
            io["failed"] = (stage, [message_of(x) for x in errs])
            return err(errs)
        return stub

    # evaluate is the real function, on a value or on a division by zero (the one legitimate way
    # for an accepted program to stop, C01)
    from gramsym import terms as T
    from gramsym.values import Big
    ev_mod = it.modules["evaluator"]
    ev_fn = ev_mod.fns["evaluate"]

    def evaluate_stub(it_, args):
        io["called"].append("evaluate")
        fails = outcome("evaluate_fails", 2) == 1
        t = T.mk("Quotient", [T.mk("IntegerLiteral", [Big(1)]), T.mk("IntegerLiteral", [Big(0)])]) if fails else T.mk("IntegerLiteral", [Big(3)])
        r = it.resolve(it.call_fn_raw(ev_mod, ev_fn, [t]))
        if r.variant == "Err":
            io["failed"] = ("evaluate", [message_of(r.fields[0])])
        return r
    it.stubs["tokenize"] = stage_stub("tokenize", VecV())
    it.stubs["parse"] = stage_stub("parse", Str("PARSED"))
    it.stubs["type_check"] = stage_stub("type_check", TupleV([Str("TERM"), Str("TYPE")]))
    it.stubs["evaluate"] = evaluate_stub

    def read_to_string(it_, args, e, mod):
        io["called"].append("read")
        if outcome("read_fails", 2) == 0:
            return ok(Str("SOURCE"))
        io["failed"] = ("read", None)
        return err(Str("No such file or directory (os error 2)"))
    it.builtin_calls["read_to_string"] = read_to_string

    def shell_completion(it_, args):
        io["stdout"].append("<completion script>\n")
        return UNIT
    it.stubs["shell_completion"] = shell_completion

    def cli_parse(it_, args, e, mod):
        k = outcome("cli", len(CLI_SHAPES))
        io["cli"] = CLI_SHAPES[k]
        path = Str("f.g")
        arg = Struct("main::ProgramPathArg", {"path": path})
        if k == 0:
            return Struct("main::Cli", {"_version": none(), "path": some(path), "command": none()})
        if k == 1:
            cmd = Adt("main::GramCommand", "Check", [arg])
        elif k == 2:
            cmd = Adt("main::GramCommand", "Run", [arg])
        else:
            cmd = Adt("main::GramCommand", "ShellCompletion", [Struct("main::ShellCompletionArgs", {"shell": Opaque("Shell")})])
        return Struct("main::Cli", {"_version": none(), "path": none(), "command": some(cmd)})
    it.builtin_calls["Cli::parse"] = cli_parse

    def do_exit(it_, args, e, mod):
        raise ExitEx(args[0])
    it.builtin_calls["exit"] = do_exit
    it.builtin_calls["thread::Builder::new"] = lambda it_, args, e, mod: Struct("ThreadBuilder", {})
    it.methods["stack_size"] = lambda it_, recv, args, e, mod, discard: recv

    def spawn(it_, recv, args, e, mod, discard):
        f = it.deref(args[0])
        try:
            it.call_value(f, [])
            res = ok(UNIT)
        except PanicEx as p:
            io["panic"] = p
            res = err(Str("panic payload"))
        return ok(Struct("JoinHandle", {"result": res}))
    it.methods["spawn"] = spawn
    old_join = it.methods.get("join")

    def join(it_, recv, args, e, mod, discard):
        r = it.deref(recv)
        if isinstance(r, Struct) and r.name == "JoinHandle":
            return r.fields["result"]
        return old_join(it_, recv, args, e, mod, discard)
    it.methods["join"] = join
    return ex, it, io


def expected_join(msgs):
    """collect_errors as the property wants it: every message, in order, separated by blank lines
    (an overline row already ends its block)."""
    return msgs


def run_model(H):
    """Explore main() over the whole environment; returns the explorer."""
    ex, it, io = build_interp(H)
    ex.fuel = 200000
    scenarios = []

    def body(ex):
        it.call_depth = 0
        for k in ("stdout", "stderr", "called"):
            del io[k][:]
        io.pop("failed", None)
        io.pop("panic", None)
        io.pop("cli", None)
        status = 0
        try:
            it.call("main", "main", [])
        except ExitEx as x:
            status = x.code
        except PanicEx as p:
            io["panic"] = p
        cli = io.get("cli")
        failed = io.get("failed")
        out, errt = "".join(io["stdout"]), "".join(io["stderr"])
        sc = {"cli": cli, "failed": failed[0] if failed else None, "errors": len(failed[1]) if failed and failed[1] else (1 if failed else 0),
              "status": status, "stdout": out, "stderr": errt, "called": list(io["called"])}
        info = lambda m, sc=sc: {"scenario": sc}
        if "panic" in io:
            p = io["panic"]
            ex.check(False, "M0.PANIC in main.rs glue: %s (%s.rs:%s)" % (p.msg, p.module, p.line), info=info)
            return
        ex.count("%s/%s" % (cli, sc["failed"] or "ok"))
        scenarios.append(sc)
        if cli == "completion":
            ex.check(status == 0 and errt == "" and out != "", "M2.shell-completion prints the script and exits 0", info=info)
            return
        check_only = cli == "check"
        if check_only:
            ex.check("evaluate" not in io["called"], "M3.check-evaluates-the-program", info=info)
        if failed:
            ex.check(status == 1, "M1.exit-status-1-on-failure (status %s after %s failed)" % (status, failed[0]), info=info)
            ex.check(out == "", "M1.nothing-on-stdout-on-failure (%r after %s failed)" % (out[:60], failed[0]), info=info)
            ex.check("[Error]" in errt, "M1.an-[Error]-diagnostic-on-stderr (%s failed)" % failed[0], info=info)
            if failed[1] is not None:
                pos, good = 0, True
                rest = errt
                for msg in failed[1]:
                    i = rest.find(msg)
                    if i < 0 or rest[:i].strip("\n") != "":
                        good = False
                        break
                    rest = rest[i + len(msg):]
                good = good and rest.strip("\n") == ""
                ex.check(good, "M1.stderr-is-exactly-the-stage's-diagnostics-in-order (%s failed with %d errors)" % (failed[0], len(failed[1])), info=info)
            else:
                ex.check("Error when reading file" in errt and "os error" in errt, "M1.read-failure-names-the-file-and-the-reason", info=info)
            order = STAGES[:STAGES.index(failed[0]) + 1]
            ex.check(io["called"] == order, "M1.no-stage-runs-after-the-failing-one (%s)" % io["called"], info=info)
            return
        ex.check(status == 0, "M2.exit-status-0-on-success (status %s)" % status, info=info)
        ex.check(errt == "", "M2.nothing-on-stderr-on-success", info=info)
        if check_only:
            ex.check("TERM" in out and "TYPE" in out and out.index("TERM") < out.index("TYPE"),
                     "M2.check-prints-the-elaborated-term-and-type (%r)" % out[:80], info=info)
        else:
            ex.check(out.strip() == "3", "M2.run-prints-exactly-the-value (%r)" % out[:80], info=info)
    ex.explore(body)
    return ex, scenarios


# ---------------------------------------------------------------------------------------------
# the real binary
WITNESS = {
    "tokenize": ["$\n", "$ $\n", "1 $ 2 $ $\n"],
    "parse": ["(\n", "x + y\n", "x + y + z\n"],
    "type_check": ["1 + true\n", "(1 + true) + (2 + false)\n", "(1 + true) + (2 + false) + (if 3 then 4 else 5)\n"],
    "evaluate": ["1 / 0\n"],
    "ok": ["1 + 2\n"],
}


def build_binary(H):
    tdir = os.path.join(VERIF, "work", "gram-bin-" + hashlib.sha256(REPO.encode()).hexdigest()[:8])
    os.makedirs(tdir, exist_ok=True)
    t0 = time.time()
    p = subprocess.run(["cargo", "build", "--offline", "--manifest-path", os.path.join(REPO, "Cargo.toml"), "--target-dir", tdir],
                       env=cargo_env(), stdout=subprocess.PIPE, stderr=subprocess.STDOUT)
    if p.returncode != 0:
        raise RuntimeError("the gram binary does not build from %s:\n%s" % (REPO, p.stdout.decode()[-3000:]))
    H.log("gram binary built from %s in %.1fs" % (REPO, time.time() - t0))
    return os.path.join(tdir, "debug", "gram")


def run_binary(binary, cli, failed, nerr):
    """Drive the real binary into the scenario; returns (status, stdout, stderr, n_errors_on_stderr)."""
    with tempfile.TemporaryDirectory(prefix="c14m") as d:
        path = os.path.join(d, "f.g")
        if failed == "read":
            if nerr == 2:
                with open(path, "wb") as fh:
                    fh.write(b"1 + \xff\xfe 2\n")      # invalid UTF-8: read_to_string fails
            # else: the file does not exist
        else:
            srcs = WITNESS[failed or "ok"]
            with open(path, "w") as fh:
                fh.write(srcs[min(nerr, len(srcs)) - 1] if failed else srcs[0])
        argv = [binary] + {"path": [path], "check": ["check", path], "run": ["run", path], "completion": ["shell-completion", "bash"]}[cli]
        env = dict(os.environ, NO_COLOR="1")
        p = subprocess.run(argv, env=env, stdout=subprocess.PIPE, stderr=subprocess.PIPE, timeout=60)
        return p.returncode, p.stdout.decode(errors="replace"), p.stderr.decode(errors="replace")


def native_verdicts(binary, cli, failed, nerr):
    """The M obligations evaluated on a real run.  Returns {label prefix: bool holds}."""
    st, out, errt = run_binary(binary, cli, failed, nerr)
    v = {}
    if cli == "completion":
        v["M2"] = st == 0 and errt == "" and out != ""
        return v, (st, out, errt)
    if st not in (0, 1):
        v["M0"] = False
    if failed:
        if cli == "check" and failed == "evaluate":
            # `check` never evaluates: the program is accepted
            v["M3"] = st == 0 and errt == ""
            return v, (st, out, errt)
        v["M1.exit"] = st == 1
        v["M1.nothing"] = out == ""
        v["M1.an-[Error]"] = "[Error]" in errt
        want = 1 if failed in ("read", "evaluate") else min(nerr, 3)
        v["M1.stderr-is"] = errt.count("[Error]") == want
        v["M1.read"] = ("Error when reading file" in errt) if failed == "read" else True
    else:
        v["M2.exit"] = st == 0
        v["M2.nothing"] = errt == ""
        if cli == "check":
            v["M2.check"] = "Elaborated term" in out and "Elaborated type" in out and "`3`" not in out.split("Elaborated type")[0].replace("1 + 2", "")
        else:
            v["M2.run"] = out.strip() == "`3`"
    return v, (st, out, errt)


def validate(H, binary, scenarios):
    """Model against binary: for every scenario class explored, the real binary behaves as the model
    predicts (status, empty/non-empty streams, number of diagnostics)."""
    seen = set()
    bad = 0
    for sc in scenarios:
        key = (sc["cli"], sc["failed"], min(sc["errors"], 3))
        if key in seen:
            continue
        seen.add(key)
        cli, failed, nerr = key
        if cli == "check" and failed == "evaluate":
            continue
        st, out, errt = run_binary(binary, cli, failed, nerr)
        pred = (sc["status"], sc["stdout"] == "", sc["stderr"] == "", sc["stderr"].count("[Error]"))
        real = (st, out == "", errt == "", errt.count("[Error]"))
        H.validated += 1
        if pred != real:
            bad += 1
            H.mismatches.append({"label": "validate.main-glue", "case": {"scenario": key}, "detail": "model (status, stdout empty, stderr empty, diagnostics) = %s, binary %s" % (pred, real)})
    H.log("main.rs glue: %d scenario classes compared with the real binary, %d disagreements" % (len(seen), bad))


def confirm(H, label, case):
    binary = build_binary(H)
    sc = case["scenario"]
    cli, failed, nerr = sc["cli"], sc["failed"], min(max(sc["errors"], 1), 3)
    if label.startswith("M0"):
        st, out, errt = run_binary(binary, cli, failed, nerr)
        return (st not in (0, 1) or "panicked" in errt), "gram %s on a file where %s fails: status %s, stderr %r" % (cli, failed, st, errt[:200])
    v, (st, out, errt) = native_verdicts(binary, cli, failed, nerr)
    if label.startswith("M3"):
        # check must not evaluate: drive a program whose evaluation fails through `check`
        v, (st, out, errt) = native_verdicts(binary, "check", "evaluate", 1)
        return (not v.get("M3", True)), "gram check on `1 / 0`: status %s, stderr %r" % (st, errt[:160])
    for pre, holds in v.items():
        if label.startswith(pre):
            return (not holds), "gram %s with %s failing (%d errors): status %s, stdout %r, stderr %r" % (cli, failed or "nothing", nerr, st, out[:120], errt[:300])
    broken = [k for k, h in v.items() if not h]
    return bool(broken), "gram %s with %s failing: real run breaks %s (status %s, stdout %r, stderr %r)" % (cli, failed or "nothing", broken, st, out[:120], errt[:300])


def run_part(H):
    t0 = time.time()
    ex, scenarios = run_model(H)
    H.absorb("main.rs glue: main/entry/run over every command-line shape, failing stage, error count and message shape", ex)
    H.log("main.rs glue: %d paths %s, %d obligations, %d discharged, %.1fs" % (ex.stats.paths, dict(ex.counters), ex.stats.obligations, ex.stats.discharged, time.time() - t0))
    binary = None
    if not H.worker:
        binary = build_binary(H)
        validate(H, binary, scenarios)
    seen = {}
    for v in ex.violations:
        lab = v.label.split(" ")[0]
        if seen.get(lab, 0) >= 2:
            continue
        seen[lab] = seen.get(lab, 0) + 1
        reproduced, detail = confirm(H, v.label, v.info)
        H.report(v.label, v.info, reproduced, detail)
    H.bounds["main.rs glue"] = "4 command-line shapes x (file unreadable | each stage failing with 1..3 errors of 3 message shapes | all stages succeeding)"
    H.assumptions += ["main.rs glue: every stage returns Ok or a non-empty error list (parts P, K, S establish that for the real stages); clap hands over one of: bare path, check PATH, run PATH, shell-completion SHELL; thread creation succeeds"]
