"""C15 -- diagnostics point at the offending source text.

Four parts, each decided by the solver over the real code:

L  error::listing is executed on a symbolic text (code points, hence UTF-8 widths and byte offsets,
   are solver variables) with a symbolic range that lies on character boundaries.  A reference that
   works on *characters* says which lines are shown, with which numbers, which slice of each line is
   highlighted, and in which display column the overline starts and how many marks it has; the real
   function does byte arithmetic and slices strings.  Obligations: no slice off a character boundary
   and no arithmetic underflow (L0), lines and numbers (L1), highlighted slice (L2), overline column
   and length counted in characters (L3).
T  type_checker::type_check on symbolic programs whose nodes carry independent symbolic ranges: when
   the program is rejected with exactly one diagnostic and the reference checker blames subterm X,
   the diagnostic's range is X's range (as solver terms, so "some other node's range" is a
   counterexample).
S  parser::resolve_variables on symbolic names (the exploration of C08): every unbound occurrence is
   reported once, with the range of that identifier.
U  tokenizer::tokenize on symbolic text (the exploration of C09): each unexpected symbol is reported
   with the byte range of exactly that grapheme.

Not reached: the ranges the packrat parser computes (span(..) in every parse function, including the
implicit-parameter range quoted in the property) -- the parser is not encoded (see DESIGN.md)."""
import json
import os
import re
import sys
import time

import z3

sys.path.insert(0, os.path.dirname(os.path.dirname(os.path.abspath(__file__))))

from gramsym.harness import Harness, run_main
from gramsym import inputs as I, terms as T, text as X
from gramsym.values import (Adt, Struct, TupleV, VecV, Str, Union, Char, none, some, z_and, z_or, z_not, z_eq, is_sym, InternalError)
from gramsym.explorer import PathAbort, FuelExhausted, Frame
from gramsym.interp import PanicEx
from gramsym.parallel import parallel_explore
from gramsym.refcheck import RefChecker, Reject
from gramsym.refs import RefUnknown
import tc_common as TC
import c03

PID = "C15"


# =================================================================================================
# Part L: listing
def is_ws(ex, it, tm, k):
    return it.truth(tm.char_pred(it, "is_whitespace", Char(tm.cps[k])))


def ref_layout(n, newline, ws, a, b):
    """Character-level reference.  newline(k), ws(k): predicates on character index k; [a, b) the
    range in character indices.  Returns [(line_number, ls, te, sec_lo, sec_hi)] for the lines shown."""
    lines = []
    start = 0
    for k in range(n):
        if newline(k):
            lines.append((start, k))
            start = k + 1
    lines.append((start, n))
    out = []
    for i, (ls, le) in enumerate(lines):
        # the line owns its characters and its terminator
        if not (ls < b and le + 1 > a):
            continue
        te = le
        while te > ls and ws(te - 1):
            te -= 1
        hi = max(ls, min(b, te))
        if a > ls:
            lo = min(a, te)
        else:
            lo = hi
            for k in range(ls, te):
                if not ws(k):
                    lo = k
                    break
        out.append((i + 1, ls, te, lo, hi))
    return out


def parse_rendered(it, r):
    """Pieces of the value returned by listing (format!/join keep their evaluated arguments)."""
    r = it.deref(r)
    if not (isinstance(r, Str) and r.parts and r.parts[0] == "join"):
        raise InternalError("listing returned %r" % (r,))
    out = []
    for ln in r.parts[1]:
        ln = it.deref(ln)
        fmt, gutter, pre, mid, post, over = ln.parts
        gutter = it.deref(gutter)
        over = it.deref(over)
        col = cnt = None
        marker = None
        if isinstance(over, Str) and over.parts:
            marker = over.parts[2]
            if len(over.parts) == 5:
                col = it.deref(over.parts[3]).parts[2]
                cnt = it.deref(over.parts[4]).parts[2]
        out.append({"gutter": gutter, "pre": it.deref(pre), "mid": it.deref(mid), "post": it.deref(post), "col": col, "cnt": cnt, "marker": marker})
    return out


def listing_obligations(ex, it, tm, n):
    for c in tm.domain():
        ex.add(c)
    a = ex.choose(n + 1)
    b = a + ex.choose(n + 1 - a)
    start, end = tm.offs[a], tm.offs[b]

    def info(m):
        return {"text": tm.text.concrete(m), "a": a, "b": b}
    # ranges come from token spans: they begin and end with a token character, or are a single line
    # break (the terminator token), or are empty
    if b > a:
        single_break = (b == a + 1) and tm.is_char(it, a, "\n")
        if not single_break:
            if is_ws(ex, it, tm, a) or is_ws(ex, it, tm, b - 1):
                ex.count("range-not-from-tokens")
                return
    try:
        r = it.call("error", "listing", [tm.text, Struct("error::SourceRange", {"start": start, "end": end})])
    except FuelExhausted:
        ex.count("fuel")
        return
    except PanicEx as p:
        ex.check(False, "L0.PANIC %s (%s.rs:%s)" % (p.msg, p.module, p.line), info=info)
        return
    got = parse_rendered(it, r)
    want = ref_layout(n, lambda k: tm.is_char(it, k, "\n"), lambda k: is_ws(ex, it, tm, k), a, b)
    ex.count("lines:%d" % len(want))
    # the line number and the gutter width are captured by name in the gutter's format string
    numbers = []
    widths = []
    for g in got:
        caps = g["gutter"].captures or {}
        ln = caps.get("line_number")
        numbers.append(int(ln.s) if isinstance(ln, Str) and ln.s is not None and ln.s.isdigit() else None)
        widths.append(caps.get("gutter_width"))
    ok = numbers == [w[0] for w in want]
    ex.check(ok, "L1.lines-shown-are-the-lines-of-the-range (real %s, reference %s)" % (numbers, [w[0] for w in want]), info=info)
    if not ok:
        return
    ex.check(all(w == max(len(str(x)) for x in numbers) for w in widths), "L1.gutter-fits-the-widest-line-number", info=info)
    f2 = True
    f3 = True
    under = True
    for g, (num, ls, te, lo, hi) in zip(got, want):
        pre, mid, post = g["pre"], g["mid"], g["post"]
        for piece in (pre, mid, post):
            if not isinstance(piece, X.SymText):
                raise InternalError("listing piece %r" % (piece,))
        if not (pre.lo == ls and pre.hi == mid.lo and mid.hi == post.lo and post.hi == te):
            f2 = False
        if not (mid.lo == lo and mid.hi == hi) and not (mid.lo == mid.hi and lo == hi):
            f2 = False
        if hi > lo:
            if g["col"] is None:
                f3 = False
            else:
                under = z_and(under, g["cnt"] >= 0)
                f3 = z_and(f3, z_eq(g["col"], mid.lo - ls), z_eq(g["cnt"], mid.hi - mid.lo))
        else:
            if g["col"] is not None:
                f3 = False
    ex.check(f2, "L2.highlighted-slice-is-the-range-within-the-line", info=info)
    ex.check(under, "L0.overline-length-does-not-underflow", info=info)
    ex.check(f3, "L3.overline-column-and-length-count-characters", info=info)
    if len(ex.samples) < 3 and ex.stats.paths % 97 == 0:
        m = ex.path_model()
        if m is not None:
            ex.samples.append({"text": tm.text.concrete(m), "range_chars": [a, b], "lines": [w[0] for w in want]})


def listing_factory(H, n):
    def make():
        ex, it = H.engine(stubs=False, solver_timeout_ms=120000)
        ex.fuel = 20000
        tm = X.TextModel(H.get_replay(), n=n)
        it.text = tm

        def body(ex):
            it.call_depth = 0
            listing_obligations(ex, it, tm, n)
        return ex, body, None
    return make


def ws_concrete(tm, ch):
    cp = ord(ch)
    return X.ascii_pred("whitespace", cp) if cp < 128 else bool(tm.info[cp]["whitespace"])


LINE_RE = re.compile(r"^( *)(\d+) │ (.*)$")
OVER_RE = re.compile(r"^( *) ([ ┊])(?: ( *)(‾+))?$")


def native_listing(replay, s, sb, eb):
    r = replay.call({"op": "listing", "source": s, "start": sb, "end": eb})
    if "panic" in r:
        return None, "listing panics: %s" % r["panic"]
    out = []
    rows = r["result"].split("\n") if r["result"] else []
    i = 0
    while i < len(rows):
        m = LINE_RE.match(rows[i])
        if not m:
            return None, "unparsed listing row %r" % rows[i]
        w = len(m.group(1)) + len(m.group(2))
        row = rows[i + 1] if i + 1 < len(rows) else None
        if row is None or len(row) < w + 2 or row[:w + 1].strip(" ") or row[w + 1] not in " \u250a":
            return None, "unparsed overline row %r" % (row,)
        rest = row[w + 2:]
        col, cnt = None, 0
        if rest:
            if rest[0] != " " or not rest.endswith("\u203e"):
                return None, "unparsed overline row %r" % (row,)
            body = rest[1:]
            col = len(body) - len(body.lstrip(" "))
            cnt = len(body) - col
            if body[col:] != "\u203e" * cnt:
                return None, "unparsed overline row %r" % (row,)
        out.append((int(m.group(2)), m.group(3), col, cnt))
        i += 2
    return out, r["result"]


def confirm_listing(H, label, case):
    """Native: render with the compiled listing and compare against the character-level reference."""
    replay = H.get_replay()
    s, a, b = case["text"], case["a"], case["b"]
    sb = len(s[:a].encode("utf-8"))
    eb = len(s[:b].encode("utf-8"))
    got, raw = native_listing(replay, s, sb, eb)
    shown = "listing(%r, %d..%d)" % (s, sb, eb)
    if got is None:
        return True, "%s: %s" % (shown, raw)
    tm = X.TextModel(replay, cps=[ord(c) for c in s])
    want = ref_layout(len(s), lambda k: s[k] == "\n", lambda k: ws_concrete(tm, s[k]), a, b)
    exp = []
    for (num, ls, te, lo, hi) in want:
        exp.append((num, s[ls:te], (lo - ls) if hi > lo else None, hi - lo))
    if got != exp:
        return True, "%s renders\n%s\nrows (number, text, overline column, overline length) %s; by characters they should be %s" % (shown, raw, got, exp)
    return False, "%s renders as the reference says: %s" % (shown, got)


def classify_listing(label, case):
    """Role of a listing violation (for the known-findings file)."""
    s, a = case["text"], case["a"]
    if label.startswith("L3"):
        return "overline-counts-bytes" if any(ord(c) > 127 for c in s) else "overline-misplaced-ascii"
    return None


def validate_listing(H, n):
    """Encoder validation: interpreter vs compiled listing on concrete texts (pieces and counts)."""
    if H.worker:
        return
    import random
    rnd = random.Random(H.seed * 31 + 5)
    replay = H.get_replay()
    alphabet = "ab \t\n\né中(x"
    bad = 0
    for _ in range(n):
        s = "".join(rnd.choice(alphabet) for _ in range(rnd.randint(0, 8)))
        a = rnd.randint(0, len(s))
        b = rnd.randint(a, len(s))
        sb = len(s[:a].encode("utf-8"))
        eb = len(s[:b].encode("utf-8"))
        ex, it = H.engine(stubs=False)
        ex.frames.append(Frame(ex._new_solver()))
        ex.fuel_left = 10 ** 6
        ex.eval_left = 10 ** 8
        tm = X.TextModel(replay, cps=[ord(c) for c in s])
        it.text = tm
        nat, raw = native_listing(replay, s, sb, eb)
        try:
            r = it.call("error", "listing", [tm.text, Struct("error::SourceRange", {"start": sb, "end": eb})])
            mine = []
            for g in parse_rendered(it, r):
                mine.append((s[g["pre"].lo:g["post"].hi], g["col"], g["cnt"] or 0))
        except PanicEx as p:
            mine = None
        natv = None if nat is None else [(t, c, k) for (_, t, c, k) in nat]
        if mine != natv:
            bad += 1
            H.mismatches.append({"label": "validate.listing", "case": {"text": s, "start": sb, "end": eb}, "detail": "interpreter %s, compiled %s" % (mine, natv)})
        H.validated += 1
        H.functions |= ex.functions_executed
        ex.frames.pop()
    for mm in H.mismatches[:3]:
        H.log("  " + json.dumps(mm, ensure_ascii=False)[:400])
    H.log("encoder validation: %d concrete (text, range) pairs through interpreter and compiled listing, %d disagreements" % (n, bad))


# =================================================================================================
# Part T: ranges of type errors
BLAME = ("is not a type", "has the wrong type", "applicand is not a function", "the branches have different types")
MAXPOS = 60


class RangedSpace(TC.ProgramSpace):
    def extra_constraints(self, node, ex):
        cs = TC.ProgramSpace.extra_constraints(self, node, ex)
        # every node gets its own one-character range: an error range equal to a node's range
        # identifies that node
        sr = node.sr.fields[0]
        if not hasattr(self, "numbering"):
            self.numbering = {}
        k = self.numbering.setdefault(node.uid, len(self.numbering))
        cs.append(z3.And(sr.fields["start"] == 2 * k, sr.fields["end"] == 2 * k + 1))
        return cs


def type_error_obligations(ex, it, root):
    info = lambda m: TC.input_case(ex, m, root)
    try:
        res, tctx, dctx = TC.call_type_check(it, root)
    except FuelExhausted:
        ex.count("fuel")
        return
    if res.variant != "Err":
        ex.count("accepted")
        return
    errs = [it.deref(e) for e in res.fields[0]]
    ex.count("rejected:%d" % min(len(errs), 3))
    missing = [e for e in errs if e.fields.get("range") is None]
    ex.check(not missing, "T0.type-error-without-a-source-range", info=info)
    if len(errs) != 1 or missing:
        return
    rc = RefChecker(ex, TC.concretize_ctor, fuel=3000)
    try:
        rc.infer(root, [])
        ex.count("reference-accepts")
        return
    except RefUnknown as u:
        ex.count("outside:" + u.why)
        return
    except Reject as r:
        rej = r
    if "annotation" in rej.roles:
        # annotations are not checked to be types (known finding of C03): what the real checker
        # reports instead is a mismatch at the definition
        ex.count("blame-in-annotation")
        return
    if not any(k in rej.why for k in BLAME) or rej.where is None:
        ex.count("blame-not-compared:" + rej.why)
        return
    want = T.source_range_of(rej.where)
    want = it.deref(want.fields[0]) if isinstance(want, Adt) and want.variant == "Some" else None
    if want is None:
        ex.count("blamed-node-has-no-range")
        return
    got = it.deref(errs[0].fields["range"])
    ex.check(z_and(z_eq(got.fields["start"], want.fields["start"]), z_eq(got.fields["end"], want.fields["end"])),
             "T1.type-error-points-at-the-offending-subterm (%s)" % rej.why.split(" of ")[0], info=info)


def type_factory(H, budget, alphabet, fuel):
    def make():
        ex, it = H.engine(node_budget=budget - 1, solver_timeout_ms=120000)
        ex.fuel = fuel
        it.max_call_depth = 600
        sp = RangedSpace("p", budget, alphabet, scope=0)
        root = sp.root()

        def body(ex):
            it.call_depth = 0
            try:
                type_error_obligations(ex, it, root)
            except PanicEx as p:
                ex.check(False, "T9.PANIC %s (%s.rs:%s)" % (p.msg, p.module, p.line), info=lambda m: TC.input_case(ex, m, root))
        return ex, body, None
    return make


RULER = "".join(chr(33 + i) for i in range(MAXPOS + 4))


def node_ranges(tj, cells, out):
    if isinstance(tj, dict):
        if tj.get("sr"):
            out.append((tuple(tj["sr"]), T.show(tj, cells)))
        for v in tj.values():
            node_ranges(v, cells, out)
    elif isinstance(tj, list):
        for v in tj:
            node_ranges(v, cells, out)


def confirm_type(H, label, case):
    """Native: type-check with a one-line ruler as the source text; the overline of the rendered
    excerpt gives the byte range back."""
    replay = H.get_replay()
    r = replay.call({"op": "type_check", "term": case["t"], "cells": case.get("cells", {}), "typing_ctx": [], "defs_ctx": [], "source": RULER, "run": False})
    shown = T.show(case["t"], case.get("cells"))
    if "err" not in r:
        return False, "compiled type_check does not reject %s" % shown
    if len(r["err"]) != 1:
        return False, "compiled type_check reports %d errors for %s" % (len(r["err"]), shown)
    msg = r["err"][0]
    rows = msg.split("\n")
    got = None
    for row in rows:
        o = re.match(r"^ +  ( *)(‾+)$", row)
        if o:
            got = (len(o.group(1)), len(o.group(1)) + len(o.group(2)))
    if label.startswith("T0"):
        return (got is None), "the diagnostic for %s has %s excerpt: %r" % (shown, "no" if got is None else "an", msg)
    if got is None:
        return True, "the diagnostic for %s has no excerpt: %r" % (shown, msg)
    # reference blame, concretely
    from gramsym.lawlib import ConcreteCtx
    cx = ConcreteCtx()
    cells = {}
    term = T.from_json(case["t"], case.get("cells", {}), cells)
    rc = RefChecker(cx, None, fuel=20000)
    try:
        rc.infer(term, [])
        return False, "reference accepts %s" % shown
    except RefUnknown as u:
        return False, "reference undecided on %s" % shown
    except Reject as rej:
        want = T.source_range_of(rej.where)
        w = want.fields[0]
        wr = (w.fields["start"], w.fields["end"])
        names = []
        node_ranges(case["t"], case.get("cells"), names)
        at = [n for rr, n in names if rr == got]
        return (wr != got), "type_check(%s): %r points at bytes %s (%s); the offending subterm (%s) is at %s" % (
            shown, rows[0], got, at[:1] or "no node", rej.why, wr)


# =================================================================================================
def keep(m, prefixes):
    m.violations = [v for v in m.violations if v[0].startswith(prefixes)]
    return m


def order_factory(H, n, quick):
    """The real check_definitions on a symbolic group (C13's family, every node with its own symbolic
    range): each 'will not be available in time' diagnostic carries the range of the DEFINITION IT
    NAMES (the first name in the message), i.e. of the definition whose evaluation would get stuck."""
    import c13
    from gramsym.explorer import FuelExhausted
    alpha = c13.family(n, quick)

    def make():
        ex, it = H.engine(solver_timeout_ms=120000)
        ex.fuel = 6000
        it.max_call_depth = 600
        sp = TC.ProgramSpace("p", 3, alpha, scope=0)
        root = sp.root()

        def body(ex):
            it.call_depth = 0
            info = lambda m: TC.input_case(ex, m, root)
            errs = VecV()
            try:
                it.call("parser", "check_definitions", [none(), Str(""), root, 0, errs])
            except FuelExhausted:
                ex.count("fuel")
                return
            except PanicEx as p:
                ex.check(False, "PANIC %s (%s.rs:%s)" % (p.msg, p.module, p.line), info=info)
                return
            ex.count("errors:%d" % len(errs))
            for e in errs:
                e = it.deref(e)
                msg = e.fields.get("msg_parts")
                parts = list(msg.parts) if isinstance(msg, Str) and msg.parts else []
                names = [str(it.deref(p)) for p in parts[1:]]
                rng = e.fields.get("range")
                if not names or not names[0].startswith("dp_"):
                    ex.check(False, "O0.order-diagnostic-names-a-definition (%s)" % (names,), info=info)
                    continue
                i = int(names[0].split("_")[-1])
                want = root.kid(2 * i + 1).sr
                if rng is None:
                    ex.check(False, "O1.order-diagnostic-has-no-excerpt", info=info)
                    continue
                rng = it.deref(rng)
                w = it.deref(want.fields[0]) if isinstance(want, Adt) else None
                ok_ = w is not None and z_and(z_eq(rng.fields["start"], w.fields["start"]), z_eq(rng.fields["end"], w.fields["end"]))
                ex.check(ok_, "O1.order-diagnostic-points-at-the-definition-it-names (definition %d of %d)" % (i, n), info=info)
        return ex, body, None
    return make


def confirm_order(H, label, case):
    """Native: the compiled check_definitions; every diagnostic's excerpt must be the text of the
    definition named first in its message (definitions get distinct one-line texts)."""
    replay = H.get_replay()
    tj = case["t"]
    # give every definition its own line: "dK_______" at line K
    width = 12
    src = "".join(("d%d" % k).ljust(width - 1, "_") + "\n" for k in range(len(tj["defs"])))
    t2 = json.loads(json.dumps(tj))
    for k, d in enumerate(t2["defs"]):
        d["def"]["sr"] = [k * width, k * width + width - 1]
    r = replay.call({"op": "check_definitions", "term": t2, "cells": case.get("cells", {}), "depth": 0, "source": src})
    if "errors" not in r:
        return True, "compiled check_definitions failed: %s" % (r,)
    bad = []
    for e in r["errors"]:
        text = e if isinstance(e, str) else json.dumps(e)
        m = re.search(r"definition of `([^`]+)`", text)
        if not m:
            continue
        k = [d["name"] for d in t2["defs"]].index(m.group(1)) if m.group(1) in [d["name"] for d in t2["defs"]] else None
        if k is None:
            continue
        if ("d%d" % k).ljust(width - 1, "_") not in text:
            bad.append((m.group(1), text[-80:]))
    return bool(bad), "program %s: diagnostics whose excerpt is not the named definition: %s" % (T.show(case["t"], case.get("cells")), bad[:2])


def main():
    H = Harness(PID)
    quick = H.tier == "quick"
    if H.args.replay:
        with open(H.args.replay) as fh:
            rec = json.load(fh)
        lab = rec["label"]
        if lab.startswith("L"):
            fn = confirm_listing
        elif lab.startswith("O"):
            fn = confirm_order
        elif lab.startswith("A1"):
            import c07
            fn = c07.confirm_ranges
        elif lab.startswith("T"):
            fn = confirm_type
        elif lab.startswith("B"):
            import parse_common as PC
            fn = PC.confirm_conformance
        elif lab.startswith("R"):
            import c08
            fn = c08.confirm
        else:
            import c09
            fn = c09.confirm
        reproduced, detail = fn(H, lab, rec["case"])
        print(("REPRODUCED: " if reproduced else "NOT REPRODUCED: ") + detail)
        return 1 if reproduced else 0
    only = os.environ.get("C15_PARTS", "LTSUOAB")

    def run(name, mk, confirm_fn, classify_fn=None, prefixes=None):
        t0 = time.time()
        m = parallel_explore(mk, H.jobs)
        if prefixes:
            keep(m, prefixes)
        H.absorb_merged(name, m)
        H.log("%s: %d paths %s, %d obligations, %d discharged, %d workers, %.1fs" % (
            name, m.stats.get("paths", 0), m.counters, m.stats.get("obligations", 0), m.stats.get("discharged", 0), m.workers, time.time() - t0))
        c03.handle(H, m.violations, confirm_fn=confirm_fn, classify_fn=classify_fn or (lambda l, c: None))

    if "L" in only:
        validate_listing(H, 150 if quick else 600)
        nmax = int(os.environ.get("C15_N", "0")) or (7 if quick else 10)
        for n in range(1, nmax + 1):
            if n < nmax - 3 and n % 2 == 0:
                continue
            run("listing on every text of %d characters and every token-shaped range" % n, listing_factory(H, n), confirm_listing, classify_listing)
        H.bounds["listing"] = "texts of 1, 3, .. and %d-%d code points over ASCII and 12 non-ASCII representatives (1-4 byte encodings, whitespace classes); every range [a,b] on character boundaries that is empty, one line break, or begins and ends with a non-whitespace character; colour off" % (nmax - 3, nmax)
    if "T" in only:
        budget = 4 if quick else 5
        run("type-error ranges, programs of <= %d nodes" % budget, type_factory(H, budget, TC.WITH_HOLES, 60000), confirm_type)
        H.bounds["type errors"] = "closed parser-shaped programs of at most %d nodes, every node with its own range (distinct per node, within 0..%d); programs rejected with exactly one diagnostic whose cause the reference places at a definite subterm" % (budget, MAXPOS)
    if "S" in only:
        import c08
        b8 = 5 if quick else 6
        run("scoping diagnostics (C08 exploration, %d nodes)" % b8, c08.make_factory(H, b8, True), c08.confirm, prefixes=("R1.unbound",))
        H.bounds["scoping errors"] = "syntax trees of at most %d nodes with symbolic names; programs whose only offences are unbound occurrences" % b8
    if "U" in only:
        import c09
        first, last = c09.first_last()
        n9 = 3 if quick else 4
        run("unexpected-symbol diagnostics (C09 exploration, %d characters)" % n9, c09.make_factory(H, n9, first, last), c09.confirm, prefixes=("T2.error-range",))
        H.bounds["unexpected symbols"] = "texts of %d code points" % n9
    if "A" in only and not H.worker:
        # ranges after re-association (what type errors on chains point at)
        import c07
        c07.validate(H, 30 if quick else 100)
        c07.run_reassociation(H, 4 if quick else 5, range_label="A1.re-associated-node-covers-its-operands")
        H.bounds["re-association ranges"] = "application, * /, + - chains of at most %d operands with parentheses and unary minus: the range of every chain node of the re-associated tree covers both of its operands (or is the range of the parenthesised expression)" % (4 if quick else 5)
    if "O" in only:
        # definition-order diagnostics: the excerpt is the definition the message names
        import c13
        for n in ([2, 3] if quick else [2, 3, 4]):
            run("definition-order diagnostics on groups of %d definitions" % n, order_factory(H, n, quick or n == 4), confirm_order)
        H.bounds["definition-order errors"] = "groups of 2-3 (thorough: 4) definitions over literals, variables, negation, sums, calls, lambdas (C13's family); every 'will not be available in time' diagnostic"
    if "B" in only:
        import parse_common as PC
        import c07
        import c09
        PC.validate_parser(H, 20 if quick else 100)
        first, last = c09.first_last()
        ob = PC.conformance_obligations(PC.Grammar(), want_b3=True, want_b12=True)
        alpha = c07.FAMILIES["binders and arrows"]
        sizes = [3, 5, 6] if quick else [3, 5, 6, 7]
        for n in sizes:
            run("binder ranges from the packrat parser, %d tokens over {%s}" % (n, " ".join(alpha)), PC.parser_factory(H, n, ob, first, last, alphabet=alpha), PC.confirm_conformance, prefixes=("B2", "B3"))
        H.bounds["parser binder ranges"] = "token sequences of %s tokens over {%s}: every accepted sequence: each node spans its first to last token, each lambda/pi/let binder (plain, implicit, annotated) has its identifier's range" % (sizes, " ".join(alpha))
    H.bounds["outside"] = "other ranges computed by the packrat parser (span(..), implicit parameters); rendering with colour on; display width of wide or combining characters (the overline is checked to count characters); listing on longer texts"
    H.assumptions += ["ranges handed to listing lie on character boundaries and begin and end with a token character (they are unions of token spans), or are empty, or are a single line-break token",
                      "std::char::is_whitespace and the UTF-8 width of a code point are read from the compiled standard library and validated each run"]
    return H.finish()


if __name__ == "__main__":
    run_main(main)
