"""C16 -- printed terms read back as the same term.

The real `Display for Term` (src/term.rs: fmt, group, the free-variable test that chooses between the
dependent and the non-dependent arrow) is executed on a SYMBOLIC parser-shaped term: constructors,
implicitness flags, De Bruijn indices and literal values are solver variables, and the printer forks
exactly where its output depends on them.  On each path the pieces it wrote are put together into
text (identifiers get the name of the binder their index selects; literals get placeholders), the
compiled tokenizer turns the text into tokens, the real parser (executed by the interpreter, with the
same symbolic payloads) reads them back, and z3 decides that the result equals the original term for
every remaining value: same formers, implicitness, indices, literals and holes; names ignored.

Counterexamples are replayed natively: the concrete term is printed by the compiled Display, the
compiled tokenizer and parser read it back, and the two terms are compared."""
import json
import os
import sys
import time

import z3

sys.path.insert(0, os.path.dirname(os.path.dirname(os.path.abspath(__file__))))

from gramsym.harness import Harness, run_main
from gramsym import inputs as I, terms as T
from gramsym.inputs import InputTerm, ARITY, let_n
from gramsym.values import (Adt, Struct, TupleV, VecV, Str, Big, Union, none, some, z_and, z_or, z_not, z_eq, is_sym, InternalError)
from gramsym.explorer import PathAbort, FuelExhausted, Frame
from gramsym.interp import PanicEx
from gramsym.parallel import parallel_explore
import tc_common as TC
import c03

PID = "C16"


class NameRef:
    """The name stored in a binder, a definition or a variable occurrence of the input term."""
    __slots__ = ("node", "kind", "i")

    def __init__(self, node, kind, i=0):
        self.node = node
        self.kind = kind
        self.i = i

    def concrete(self, model=None):
        u = self.node.uid.replace(".", "_")
        return ("d%s_%d" % (u, self.i)) if self.kind == "def" else ("v" + u)

    def sym_eq(self, it, other):
        return isinstance(other, NameRef) and other.node is self.node and other.kind == self.kind and other.i == self.i

    def __repr__(self):
        return "Name(%s)" % self.concrete()


class PrintSpace(TC.ProgramSpace):
    def name_for(self, node):
        return NameRef(node, "node")

    def def_name(self, node, i):
        return NameRef(node, "def", i)


def scope_names(ex, node):
    """Names in scope at `node`, innermost last (needs the ancestors' constructors decided)."""
    chain = []
    n = node
    while n.parent is not None:
        chain.append((n.parent, n.slot))
        n = n.parent
    names = []
    for p, slot in reversed(chain):
        cur = ex.allowed(p)
        if len(cur) != 1:
            raise InternalError("ancestor constructor undecided")
        (c,) = cur
        if c in ("Lambda", "Pi"):
            if slot == 1:
                names.append(NameRef(p, "node").concrete())
        elif c.startswith("Let"):
            k = let_n(c)
            if slot <= 2 * k:
                for i in range(k):
                    names.append(NameRef(p, "def", i).concrete())
    return names


def build_text(ex, it, pieces):
    """Text of the printed pieces; returns (text, literal table)."""
    out = ""
    lits = {}
    for p in pieces:
        if isinstance(p, str):
            out += p
            continue
        kind, v = p
        if kind == "int":
            val = v.v if isinstance(v, Big) else v
            if isinstance(val, int):
                out += str(val)
            else:
                ex.add(val >= 0)
                key = str(7001 + len(lits))
                lits[key] = Big(val)
                out += key
            continue
        nm = v
        if not isinstance(nm, NameRef):
            raise InternalError("printed name %r" % (nm,))
        if nm.kind == "def":
            out += nm.concrete()
            continue
        cur = ex.allowed(nm.node)
        if len(cur) != 1:
            raise InternalError("printed node undecided")
        (c,) = cur
        if c in ("Lambda", "Pi"):
            out += nm.concrete()
        else:
            # a variable occurrence: it prints the name of the binder its index selects
            names = scope_names(ex, nm.node)
            idx = nm.node.idx
            if not isinstance(idx, int):
                k = ex.decide([idx == j for j in range(len(names))] + [z3.Or(idx < 0, idx >= len(names))])
                if k == len(names):
                    raise PathAbort("unscoped")
                idx = k
            out += names[len(names) - 1 - idx]
    return out, lits


def tokens_from_native(toks, lits):
    out = []
    for t in toks:
        rng = Struct("error::SourceRange", {"start": t["sr"][0], "end": t["sr"][1]})
        k = t["v"]
        if k == "Identifier":
            v = Adt("token::Variant", k, [t["arg"]])
        elif k == "IntegerLiteral":
            v = Adt("token::Variant", k, [lits.get(t["arg"], Big(int(t["arg"])))])
        elif k == "Terminator":
            v = Adt("token::Variant", k, [Adt("token::TerminatorType", t["arg"], [])])
        else:
            v = Adt("token::Variant", k, [])
        out.append(Struct("token::Token", {"source_range": rng, "variant": v}))
    return VecV(out)


def name_json(j, scope=()):
    """Give binders distinct names and variable occurrences the name of their binder."""
    if isinstance(j, list):
        return [name_json(x, scope) for x in j]
    if not isinstance(j, dict):
        return j
    c = j.get("v")
    out = dict(j)
    if c == "Variable":
        i = j["index"]
        out["name"] = scope[len(scope) - 1 - i] if 0 <= i < len(scope) else "free%d" % i
    elif c in ("Lambda", "Pi"):
        nm = j["name"].concrete() if hasattr(j["name"], "concrete") else str(j["name"])
        out["name"] = nm
        out["kids"] = [name_json(j["kids"][0], scope), name_json(j["kids"][1], scope + (nm,))]
    elif c == "Let":
        names = [d["name"].concrete() if hasattr(d["name"], "concrete") else str(d["name"]) for d in j["defs"]]
        inner = scope + tuple(names)
        out["defs"] = [{"name": n, "ann": name_json(d["ann"], inner), "def": name_json(d["def"], inner)} for n, d in zip(names, j["defs"])]
        out["body"] = name_json(j["body"], inner)
    elif "kids" in j:
        out["kids"] = [name_json(x, scope) for x in j["kids"]]
    return out


def named_case(ex, m, root):
    c = TC.input_case(ex, m, root)
    c["t"] = name_json(c["t"])
    c["cells"] = {k: (name_json(v) if v is not None else None) for k, v in c.get("cells", {}).items()}
    return c


def obligations(H, ex, it, root):
    info = lambda m: named_case(ex, m, root)
    pieces = []
    try:
        # parser output has passed the definition-order check: run the real one and skip the rest
        errs = VecV()
        it.call("parser", "check_definitions", [none(), Str(""), root, 0, errs])
        if len(errs):
            ex.count("fails-definition-order")
            return
        it.display_value(root, pieces)
    except FuelExhausted:
        ex.count("fuel")
        return
    text, lits = build_text(ex, it, pieces)
    info2 = lambda m: dict(named_case(ex, m, root), printed=text)
    replay = H.get_replay()
    r = replay.call({"op": "tokenize", "source": text})
    if "ok" not in r:
        ex.check(False, "P1.printed-text-does-not-tokenize", info=info2)
        return
    toks = tokens_from_native(r["ok"], lits)
    try:
        p = it.resolve(it.call("parser", "parse", [none(), Str(""), toks, VecV()]))
    except FuelExhausted:
        ex.count("fuel")
        return
    if p.variant == "Err":
        ex.count("unreadable")
        ex.check(False, "P1.printed-text-does-not-parse", info=info2)
        return
    back = p.fields[0]
    ex.count("read-back")
    # a hole reads back as a hole; the scope marker of a hole (its shift) is set by the position the
    # parser finds it in and is not part of what the text denotes (DESIGN.md, C16)
    opts = T.EqOpts(names=False, source_ranges=False, cell_eq=lambda a, b: True)
    opts.hole_shifts = False
    same = T.term_eq(ex, root, back, opts)
    ex.check(same, "P2.read-back-term-differs", info=info2)
    if len(ex.samples) < 4 and ex.stats.paths % 53 == 0:
        ex.samples.append({"printed": text})


def make_factory(H, budget, alphabet, depth_family=False):
    def make():
        ex, it = H.engine(node_budget=None if depth_family else budget - 1, solver_timeout_ms=120000)
        ex.fuel = 60000
        it.max_call_depth = 900
        sp = PrintSpace("p", 3 if depth_family else budget, alphabet, scope=0)
        root = sp.root()

        def body(ex):
            it.call_depth = 0
            try:
                obligations(H, ex, it, root)
            except PanicEx as p:
                ex.check(False, "PANIC %s (%s.rs:%s)" % (p.msg, p.module, p.line), info=lambda m: named_case(ex, m, root))
        return ex, body, None
    return make


FORMERS = [c for c in TC.HOLE_FREE if ARITY[c] > 0 and c not in ("Let2", "Let3")]


def pair_alphabet(slot):
    """Every former in operand position `slot` of every former; all other positions are leaves."""
    def alpha(node):
        if node.depth == 1:
            return FORMERS
        if node.depth == 2:
            return FORMERS if node.slot == slot else ["Type", "Variable"]
        return ["Type", "Variable"]
    return alpha


def round_trip(H, tj, cells, scope=()):
    """Native round trip of one term in a scope: (ok?, printed text, what happened)."""
    replay = H.get_replay()
    r = replay.call({"op": "show", "term": tj, "cells": cells})
    if "panic" in r:
        return False, None, "printing panics: %s" % r["panic"]
    text = r["result"]
    orig = strip(T.canon(T.inline_cells(tj, cells)))
    b = replay.call({"op": "front", "source": text, "context": list(scope)})
    if "panic" in b:
        return False, text, "reading %r back panics: %s" % (text, b["panic"])
    if b.get("stage") != "parsed":
        return False, text, "prints as %r, which gram rejects: %s" % (text, (b.get("err") or [""])[0].split("\n")[0])
    back = strip(T.canon(T.inline_cells(b["ok"], b["cells"])))
    if back != orig:
        return False, text, "prints as %r, which reads back as %s" % (text, b["shown"])
    return True, text, "%r reads back as the same term" % text


def subterms(j, scope=()):
    """(subterm, scope) for the direct children of a term."""
    c = j.get("v")
    if c in ("Lambda", "Pi"):
        return [(j["kids"][0], scope), (j["kids"][1], scope + (j["name"],))]
    if c == "Let":
        inner = scope + tuple(d["name"] for d in j["defs"])
        return [(x, inner) for d in j["defs"] for x in (d["ann"], d["def"])] + [(j["body"], inner)]
    return [(k, scope) for k in j.get("kids", [])]


def minimal_failing(H, tj, cells, scope=()):
    """A subterm that does not survive the round trip although all of its children do."""
    for k, sc in subterms(tj, scope):
        if k.get("v") == "Unifier":
            continue
        ok, _, _ = round_trip(H, k, cells, sc)
        if not ok:
            return minimal_failing(H, k, cells, sc)
    return tj, scope


def confirm(H, label, case):
    """Native: print with the compiled Display, read back with the compiled tokenizer and parser."""
    ok, text, what = round_trip(H, case["t"], case.get("cells", {}))
    return (not ok), "the term %s %s" % (T.show(case["t"], case.get("cells")), what)


def strip(j):
    """Drop names, ranges and hole identities (fresh on both sides)."""
    if isinstance(j, dict):
        return {k: strip(v) for k, v in j.items() if k not in ("name", "sr", "cell", "names", "shift")}
    if isinstance(j, list):
        return [strip(x) for x in j]
    return j


LEAFS = ("Type", "Variable", "Integer", "IntegerLiteral", "Boolean", "True", "False", "Unifier")


def shape(j, depth=2):
    """Former skeleton of a term (two levels, leaves collapsed)."""
    if not isinstance(j, dict):
        return "-"
    c = j.get("v")
    if c in LEAFS:
        return "leaf"
    if c in ("Lambda", "Pi"):
        head = c + ("!" if j.get("implicit") else "")
        kids = j["kids"]
    elif c == "Let":
        head = "Let%d" % len(j["defs"])
        kids = [x for d in j["defs"] for x in (d["ann"], d["def"])] + [j["body"]]
    else:
        head = c
        kids = j.get("kids", [])
    if depth == 1 or not kids:
        return head
    return head + "(" + ",".join(shape(k, depth - 1) for k in kids) + ")"


def uses_parameter(j, k=0):
    """Does the term mention De Bruijn index k?"""
    c = j.get("v")
    if c == "Variable":
        return j["index"] == k
    if c in ("Lambda", "Pi"):
        return uses_parameter(j["kids"][0], k) or uses_parameter(j["kids"][1], k + 1)
    if c == "Let":
        n = len(j["defs"])
        return any(uses_parameter(x, k + n) for d in j["defs"] for x in (d["ann"], d["def"])) or uses_parameter(j["body"], k + n)
    return any(uses_parameter(x, k) for x in j.get("kids", []))


def classify(H, label, case):
    """Role of a counterexample: the shape of a minimal subterm that does not survive the round trip."""
    if label.startswith("PANIC"):
        return "PANIC", case["t"]
    sub, scope = minimal_failing(H, case["t"], case.get("cells", {}))
    if sub.get("v") == "Pi" and sub.get("implicit") and not uses_parameter(sub["kids"][1]):
        return "implicit-pi-unused-parameter", sub
    return shape(sub), sub


def handle(H, records, cap=30):
    """Every counterexample is replayed natively and classified by its minimal failing subterm;
    one report per role."""
    reported = {}
    for label, case, trace in records[:3000]:
        if label.startswith("PANIC"):
            reproduced, detail = c03.native_panic(H, case)
            role = "PANIC"
        else:
            reproduced, detail = confirm(H, label, case)
            role = classify(H, label, case)[0] if reproduced else None
        if reproduced and role in reported:
            reported[role] += 1
            continue
        if reproduced:
            reported[role] = 1
            if len(reported) > cap:
                continue
        H.report("%s [%s]" % (label, role), case, reproduced, detail, finding=role_of(role) if reproduced else None)
    if reported:
        H.log("roles: %s" % reported)


def validate(H, n):
    """Encoder validation: the interpreter's execution of Display against the compiled one."""
    if H.worker:
        return
    from gramsym.termgen import random_program
    replay = H.get_replay()
    bad = 0
    for i in range(n):
        ex, it = H.engine()
        ex.frames.append(Frame(ex._new_solver()))
        ex.fuel_left = 10 ** 6
        ex.eval_left = 10 ** 8
        tj, cells = random_program(H.rng, depth=H.rng.randint(2, 4), holes=(i % 3 != 0))
        tj = name_json(tj)
        cells = {k: (name_json(v) if v is not None else None) for k, v in cells.items()}
        tv = T.from_json(tj, cells, {})
        pieces = []
        try:
            it.display_value(tv, pieces)
            mine = "".join(p if isinstance(p, str) else (str(p[1].v) if p[0] == "int" else str(p[1])) for p in pieces)
        except (FuelExhausted, PanicEx) as e:
            mine = "<%s>" % type(e).__name__
        theirs = replay.call({"op": "show", "term": tj, "cells": cells}).get("result")
        if mine != theirs:
            bad += 1
            H.mismatches.append({"label": "validate.display", "case": {"t": tj, "cells": cells}, "detail": "interpreter %r, compiled %r" % (mine, theirs)})
        H.validated += 1
        H.functions |= ex.functions_executed
        ex.frames.pop()
    for mm in H.mismatches[:2]:
        H.log("  " + str(mm["detail"])[:400])
    H.log("encoder validation: %d random programs printed by the interpreter's execution of Display and by the compiled one, %d disagreements" % (n, bad))


def role_of(role):
    """Known-finding id of a role."""
    return {"implicit-pi-unused-parameter": "C16-implicit-pi-unused-parameter"}.get(role)


def main():
    H = Harness(PID)
    quick = H.tier == "quick"
    if H.args.replay:
        with open(H.args.replay) as fh:
            rec = json.load(fh)
        reproduced, detail = confirm(H, rec["label"], rec["case"])
        print(("REPRODUCED: " if reproduced else "NOT REPRODUCED: ") + detail)
        return 1 if reproduced else 0
    validate(H, 150 if quick else 600)
    budget = int(os.environ.get("C16_BUDGET", "0")) or (4 if quick else 5)
    parts = [("print/read-back of every parser-shaped term of <= %d nodes" % budget, make_factory(H, budget, TC.WITH_HOLES))]
    if not os.environ.get("SKIPFAM"):
        for slot in range(3 if quick else 5):
            parts.append(("former pairs: every former in operand position %d of every former, leaves elsewhere" % slot, make_factory(H, 0, pair_alphabet(slot), depth_family=True)))
    for name, mk in parts:
        t0 = time.time()
        m = parallel_explore(mk, H.jobs)
        H.absorb_merged(name, m)
        H.log("%s: %d paths %s, %d obligations, %d discharged, %d workers, %.1fs" % (
            name, m.stats.get("paths", 0), m.counters, m.stats.get("obligations", 0), m.stats.get("discharged", 0), m.workers, time.time() - t0))
        handle(H, m.violations)
    H.bounds.update({"terms": "closed parser-shaped terms (holes as the parser places them, groups of <= 2 definitions) of at most %d nodes; and every former in operand position 0..%d of every former with Type/variable leaves elsewhere" % (budget, 2 if quick else 4),
                     "outside": "larger terms; names that collide (binders are given distinct names, as the parser's re-binding check enforces); terms containing solved holes"})
    H.assumptions += ["input terms satisfy the parser-output invariants (closed, hole shifts as the parser sets them, non-negative literals, a group's body is not a group, accepted by the real parser::check_definitions)",
                      "a hole reads back as a hole: its shift (a scope marker the parser derives from the position) is not compared"]
    return H.finish()


if __name__ == "__main__":
    run_main(main)
