"""C17 -- parsing time does not blow up with nesting or length.

What is decided here is a *bounded work bound*, the mechanism behind the property: the real
parser::parse (all memoised parse_* functions, macros expanded, the HashMap cache) is executed on
EVERY sequence of up to N symbolic tokens (kinds are solver variables refined only where the parser
inspects them, so a path stands for a product of kinds), and on every path the number of calls of
parse_* functions -- cache hits included -- must stay below  SLACK * S * (n + 1), where S is the
number of static call sites of parse_* functions found in /repo/src/parser.rs on this run and n the
number of tokens.  With the packrat invariant every body runs at most once per start position, so a
parse makes at most S * (n + 1) + 1 calls (measured on the unchanged tree: 47, 94, 141, 188 for
n = 0..3, S = 76);
an implementation whose work multiplies per nesting level (failures not memoised, a cycle of
un-memoised functions) exceeds the bound by orders of magnitude already at 2-4 tokens, because the
precedence ladder is ~15 levels deep (measured: `(())` costs > 10^4 calls instead of ~10^2).

The bound is deliberately generous (SLACK): removing the memoisation of single functions whose
callers are memoised multiplies the work by a small constant and keeps parsing linear -- that is not
a violation of the property and does not exceed the bound.  Asymptotic behaviour for n in the
thousands is outside any bounded check; the claim is the stated work bound for n <= N, for every
input including malformed ones.  A violation is replayed natively: the compiled tokenizer + parser is
timed on the witness wrapped in 0, 1, 2, 3 pairs of parentheses and must grow geometrically."""
import json
import os
import statistics
import sys
import time

import z3

sys.path.insert(0, os.path.dirname(os.path.dirname(os.path.abspath(__file__))))

from gramsym.harness import Harness, run_main
from gramsym.parallel import parallel_explore
import parse_common as PC
import tc_common as TC
import c03
import c09

PID = "C17"
SLACK = 4


def parser_functions(H):
    return sorted(f["name"] for f in H.ast["parser"]["items"] if f.get("k") == "Fn" and f["name"].startswith("parse_"))


def static_call_sites(H):
    """Number of call sites of parse_* functions in the bodies of parser.rs's parse* functions
    (macros expanded): with the packrat invariant each body runs at most once per start position, so
    a parse makes at most sites * (n + 1) + 1 calls."""
    def count(v):
        n = 0
        if isinstance(v, dict):
            if v.get("k") == "Call" and v["f"].get("k") == "Path" and v["f"]["path"][-1].startswith("parse_"):
                n += 1
            for x in v.values():
                n += count(x)
        elif isinstance(v, list):
            for x in v:
                n += count(x)
        return n
    return sum(count(f["body"]) for f in H.ast["parser"]["items"] if f.get("k") == "Fn" and f["name"].startswith("parse"))


def make_obligations(F, n, stats):
    bound = SLACK * F * (n + 1)      # F: static call sites

    def obligations(ex, it, st, out):
        info = lambda m: PC.case_of(ex, st, m)
        cc = it.call_counts or {}
        w = sum(v for k, v in cc.items() if k.startswith("parse_"))
        it.call_counts = {}
        if "panic" in out:
            ex.count("panic (C14's subject)")
            return
        if "fuel" in out:
            ex.check(False, "W0.parse-exceeds-the-fuel-bound (%d calls so far, bound %d)" % (w, bound), info=info)
            return
        ex.count("calls:%d" % w)       # histogram (counters are summed across workers)
        if w > ex.counters.get("dbg_max", 0) and os.environ.get("C17_DEBUG"):
            ex.counters["dbg_max"] = w
            if True:
                m = ex.path_model()
                print("DEBUG max so far", w, PC.case_of(ex, st, m) if m is not None else None, sorted(cc.items(), key=lambda kv: -kv[1])[:8], flush=True)
        ex.check(w <= bound, "W1.parse-calls-within-bound (%d calls of parse_* functions on %d tokens, bound %d)" % (w, n, bound), info=info)
    return obligations


def confirm(H, label, case):
    """Native: the compiled tokenizer + parser on the witness wrapped in k pairs of parentheses.  A
    (close to) linear parser adds a constant per level; a parser whose work multiplies per nesting
    level -- what the work bound is there to exclude -- grows geometrically."""
    replay = H.get_replay()
    text = case["text"]
    kinds = PC.native_kinds(replay, text)
    if kinds != case["kinds"]:
        return False, "the text %r tokenizes to %s, not to the token sequence of the counterexample %s" % (text, kinds, case["kinds"])

    def per_run(src, reps):
        r = replay.call({"op": "front_timed", "source": src, "reps": reps, "budget_ms": 15000}, timeout=90)
        if "nanos" not in r:
            return 60.0
        return r["nanos"] / 1e9 / max(1, r["reps"])
    ts = []
    for k in range(0, 4):
        t = per_run("(" * k + text + ")" * k, 50)
        ts.append(t)
        if t > 10.0:
            break
    ratios = [ts[i + 1] / max(ts[i], 1e-7) for i in range(len(ts) - 1)]
    grows = len(ts) >= 3 and ts[2] > 20 * max(ts[0], 2e-6) and ts[2] > 10 * ts[1] * 0.5
    return grows, "compiled tokenize + parse on %r wrapped in 0..%d pairs of parentheses: %s s per run (ratios %s)" % (
        text, len(ts) - 1, ["%.6f" % t for t in ts], ["%.1f" % r for r in ratios])


def main():
    H = Harness(PID)
    quick = H.tier == "quick"
    if H.args.replay:
        with open(H.args.replay) as fh:
            rec = json.load(fh)
        fn = confirm_order if rec["label"].startswith("D") else confirm
        reproduced, detail = fn(H, rec["label"], rec["case"])
        print(("REPRODUCED: " if reproduced else "NOT REPRODUCED: ") + detail)
        return 1 if reproduced else 0
    first, last = c09.first_last()
    PC.validate_parser(H, 30 if quick else 150)
    nfun = len(parser_functions(H))
    F = static_call_sites(H)
    if nfun < 10 or F < nfun:
        H.inconclusive.append("only %d parse_* functions / %d call sites found in parser.rs" % (nfun, F))
    nmax = int(os.environ.get("C17_N", "0")) or (3 if quick else 4)
    growth = []
    for n in range(0, nmax + 1):
        name = "parse on every sequence of %d tokens: calls of parse_* functions" % n
        t0 = time.time()
        base = PC.parser_factory(H, n, make_obligations(F, n, None), first, last, fuel=400000)
        m = parallel_explore(counting(base), H.jobs)
        H.absorb_merged(name, m)
        hist = {int(k.split(":")[1]): v for k, v in m.counters.items() if k.startswith("calls:")}
        mx = max(hist) if hist else 0
        m.counters = {k: v for k, v in m.counters.items() if not k.startswith("calls:")}
        m.counters["max_calls"] = mx
        growth.append((n, mx))
        H.log("%s: %d paths, max %s calls (bound %d), %d obligations, %d discharged, %d workers, %.1fs" % (
            name, m.stats.get("paths", 0), m.counters.get("max_calls"), SLACK * F * (n + 1), m.stats.get("obligations", 0), m.stats.get("discharged", 0), m.workers, time.time() - t0))
        c03.handle(H, m.violations, confirm_fn=confirm, classify_fn=lambda l, c: None, cap=2)
    # D: the definition-order pass
    t0 = time.time()
    m = parallel_explore(order_factory(H, 3), min(H.jobs, 4))
    H.absorb_merged("definition-order pass on a group of one non-value definition and 3 functions with shared helpers", m)
    hist = sorted((int(k.split(":")[1]), v) for k, v in m.counters.items() if k.startswith("calls:"))
    H.log("definition-order pass: %d paths, calls of check_definition per path %s, %d obligations, %d discharged, %.1fs" % (
        m.stats.get("paths", 0), hist, m.stats.get("obligations", 0), m.stats.get("discharged", 0), time.time() - t0))
    c03.handle(H, m.violations, confirm_fn=confirm_order, classify_fn=lambda l, c: None, cap=1)
    H.bounds["definition-order pass"] = "a group of 4 definitions: one non-value start and 3 functions each mentioning two later members or its parameter (which ones: symbolic); check_definition entered at most 4 times"
    H.samples.append({"max calls of parse_* functions per number of tokens": growth, "parse functions": nfun, "static call sites": F, "bound": "%d * %d * (n + 1)" % (SLACK, F)})
    H.bounds.update({"parser": "every token sequence of 0..%d tokens over all 29 token kinds (well-formed and malformed alike)" % nmax,
                     "work measure": "calls of parse_* functions during parser::parse, cache hits included",
                     "bound": "SLACK * S * (n + 1) with SLACK = %d and S = %d static call sites of parse_* functions in parser.rs (the packrat bound is S * (n + 1) + 1)" % (SLACK, F),
                     "outside": "asymptotic behaviour beyond %d tokens (n in the thousands is not reachable by bounded symbolic execution); the tokenizer (a single pass; constant factors are not observable at this size); wall-clock time" % nmax})
    H.assumptions += ["token sequences are those the tokenizer can produce (line-break terminators only where it emits them)",
                      "time is proportional to the number of parse_* calls (each call does a bounded amount of work besides the calls it makes)"]
    return H.finish()


# ---------------------------------------------------------------------------------------------
# D: the definition-order pass (parser::check_definitions), the "long definition sequences" family
def order_factory(H, n=3):
    """A group of one non-value definition and n functions whose bodies mention two later members
    each (which ones is symbolic, layered so that the dependency graph is a DAG with shared helpers).
    With the `visited` set every definition is entered at most once per starting definition; without
    it the walk enumerates every path through the graph, which is exponential in n."""
    from gramsym.values import VecV, Str, none
    from gramsym.inputs import CODE
    N = n + 1

    def alpha(node):
        d, sl = node.depth, node.slot
        if d == 1:
            return ["Let%d" % N]
        if d == 2:
            if sl == 2 * N:
                return ["Variable"]
            if sl % 2 == 0:
                return ["Unifier"]
            return ["Sum"] if sl == 1 else ["Lambda"]
        if d == 3:
            if node.parent.slot == 1:
                return ["Variable"]
            return ["Integer"] if sl == 0 else ["Sum"]
        return ["Variable"]

    def make():
        ex, it = H.engine(solver_timeout_ms=60000)
        ex.fuel = 20000
        sp = TC.ProgramSpace("p", 4, alpha, scope=0)
        root = sp.root()

        def body(ex):
            it.call_depth = 0
            it.call_counts = {}
            # layering: the start mentions functions; function i mentions its parameter or functions j > i
            start = root.kid(1)
            for k in (0, 1):
                v = start.kid(k)
                ex.touch(v)
                ex.add(z3.Or(*[v.idx == N - 1 - j for j in range(1, N)]))
            for i in range(1, N):
                b = root.kid(2 * i + 1).kid(1)
                for k in (0, 1):
                    v = b.kid(k)
                    ex.touch(v)
                    ex.add(z3.Or(v.idx == 0, *[v.idx == 1 + (N - 1 - j) for j in range(i + 1, N)]))
            errs = VecV()
            it.call("parser", "check_definitions", [none(), Str(""), root, 0, errs])
            calls = (it.call_counts or {}).get("check_definition", 0)
            ex.count("calls:%d" % calls)
            ex.check(calls <= N, "D1.each-definition-entered-at-most-once-per-start (%d calls of check_definition for one non-value definition in a group of %d)" % (calls, N),
                     info=lambda m: {"n": n, "case": TC.input_case(ex, m, root)})
        return ex, body, None
    return make


def layered_group(n):
    """Term JSON of: z = f1 + f2; f_i = (x : int) => f_{i+1} + f_{i+2} (the last ones use x); z"""
    N = n + 1
    var = lambda name, idx: {"v": "Variable", "sr": None, "name": name, "index": idx}
    defs = []
    cells = {}
    for i in range(N):
        cells[str(i)] = None
        ann = {"v": "Unifier", "cell": i, "shift": N - i, "sr": None}
        if i == 0:
            d = {"v": "Sum", "sr": None, "kids": [var("f1", N - 1 - 1), var("f2", N - 1 - min(2, N - 1))]}
        else:
            ref = lambda j: var("f%d" % j, 1 + (N - 1 - j)) if j < N else var("x", 0)
            d = {"v": "Lambda", "sr": None, "name": "x", "implicit": False,
                 "kids": [{"v": "Integer", "sr": None}, {"v": "Sum", "sr": None, "kids": [ref(i + 1), ref(i + 2)]}]}
        defs.append({"name": "z" if i == 0 else "f%d" % i, "ann": ann, "def": d})
    return {"v": "Let", "sr": None, "defs": defs, "body": var("z", N - 1)}, cells


def confirm_order(H, label, case):
    """Native: the compiled check_definitions on the layered family at 20, 26, 32 functions."""
    replay = H.get_replay()
    ts = []
    for n in (20, 26, 32):
        tj, cells = layered_group(n)
        t0 = time.time()
        r = replay.call({"op": "check_definitions", "term": tj, "cells": cells, "depth": 0, "source": ""}, timeout=90)
        ts.append(time.time() - t0)
        if "timeout" in r or "crash" in r:
            ts[-1] = 90.0
            break
    grows = len(ts) >= 2 and ts[-1] > 8 * max(ts[-2], 0.002) and ts[-1] > 0.2
    return grows, "compiled check_definitions on the layered family with 20, 26, 32 functions: %s s" % ["%.3f" % t for t in ts]


def counting(base):
    """Wrap a parser factory: switch call counting on in its interpreter, reset per path."""
    def make():
        ex, body, x = base()
        it = None
        for c in body.__closure__ or ():
            v = c.cell_contents
            if v.__class__.__name__ == "Interp":
                it = v
        if it is None:
            raise RuntimeError("interpreter not found in the parser factory")

        def body2(ex):
            it.call_counts = {}
            body(ex)
        return ex, body2, x
    return make


if __name__ == "__main__":
    run_main(main)
