"""C18 -- checking under a context matches the closed program; contexts are restored.

type_check is run by path forking under non-empty typing/definitions contexts (the vectors are store
locations of the executor):
(1) whatever the outcome, both context vectors are exactly as before (same length, same entries);
(2) Gamma |- t has the same verdict as the closed program obtained by binding Gamma around t
    (a lambda for a parameter entry, a one-definition group for a definition entry), and the reported
    types agree up to conversion after closing;
(3) normalize_weak_head(Var k, Gamma) is the k-th definition raised into the current scope."""
import json
import os
import sys
import time

import z3

sys.path.insert(0, os.path.dirname(os.path.dirname(os.path.abspath(__file__))))

from gramsym.harness import Harness, run_main
from gramsym import inputs as I, terms as T
from gramsym.values import (Adt, Struct, TupleV, VecV, Str, Union, none, some, z_and, z_or, z_not, z_eq, InternalError)
from gramsym.explorer import PathAbort, FuelExhausted, Frame
from gramsym.interp import PanicEx
from gramsym.refcheck import RefChecker, Reject, Entry
from gramsym.refs import RefUnknown, Refs
from gramsym.lawlib import ConcreteCtx, empty_model, concrete_truth
from gramsym.parallel import parallel_explore
import tc_common as TC
import c03

PID = "C18"

# context shapes: (name, list of entries); an entry is ("param", type) or ("def", type, definition)
INT = T.mk("Integer")
TYPE = T.mk("Type")


def contexts(ex):
    """A symbolic choice of context.  Returns (typing VecV, defs VecV, description)."""
    k = ex.choose(9)
    lit = T.lit(z3.Int("ctxlit"))
    if k == 0:
        ent = [("param", INT)]
    elif k == 1:
        ent = [("param", TYPE), ("param", T.var("a", 0))]
    elif k == 2:
        ent = [("def", INT, lit)]
    elif k == 3:
        ent = [("param", INT), ("def", T.mk("Pi", ["_", False, INT, INT]), T.mk("Lambda", ["n", False, INT, T.mk("Sum", [T.var("n", 0), T.var("p", 2)])]))]
    elif k == 4:
        ent = [("def", TYPE, INT), ("param", T.var("t", 0))]
    # type-level aliases next to other entries: a lookup that is one entry off lands on a different
    # definition (added after S-C05-02 and S-C03-02, which the first five shapes missed)
    elif k == 5:
        ent = [("def", TYPE, TYPE)]
    elif k == 6:
        ent = [("def", TYPE, INT), ("def", TYPE, TYPE), ("param", T.var("v", 1))]
    elif k == 7:
        ent = [("def", INT, lit), ("def", TYPE, TYPE)]
    else:
        # a parameter and two definitions that close as ONE group of two definitions, the second
        # mentioning the parameter (added after S-C18-02: the group's type must carry its definitions
        # into the outer scope correctly; one-definition groups do not exercise that)
        ent = [("param", TYPE), ("gdef", TYPE, INT), ("gdef", TYPE, T.var("a", 2))]
    typing, defs = VecV(), VecV()
    for e in ent:
        if e[0] == "param":
            typing.append(TupleV([e[1], 0]))
            defs.append(none())
        else:
            typing.append(TupleV([e[1], 1]))
            defs.append(some(TupleV([e[2], 1])))
    return typing, defs, ent


def close(term, ent, binder="Lambda"):
    """Bind the context around the term: innermost entry first.  Consecutive "gdef" entries become one
    group (their terms are written so that they mean the same in the context and in the group).
    binder="Pi" closes a *type*."""
    t = term
    sr = T.some(T.Struct("error::SourceRange", {"start": 0, "end": 1}))
    i = len(ent) - 1
    while i >= 0:
        e = ent[i]
        name = "g%d" % i
        if e[0] == "param":
            t = T.mk(binder, [name, False, e[1], t], sr)
            i -= 1
        elif e[0] == "def":
            t = T.let([(name, e[1], e[2])], t, sr)
            i -= 1
        else:
            j = i
            while j >= 0 and ent[j][0] == "gdef":
                j -= 1
            t = T.let([("g%d" % k, ent[k][1], ent[k][2]) for k in range(j + 1, i + 1)], t, sr)
            i = j
    return t


def snapshot(v):
    return [x for x in v]


def same_vec(ex, before, after, it):
    if len(before) != len(after):
        return False
    ok = True
    for a, b in zip(before, after):
        if a is b:
            continue
        ok = z_and(ok, it.sym_eq(a, b))
    return ok


def obligations(ex, it, root):
    typing, defs, ent = contexts(ex)
    root.space.scope = len(ent)
    closed = close(root, ent)

    def info(m):
        conc = T.Concretizer(ex, m, initial_cells=True)
        case = {"t": conc.term(root), "closed": conc.term(closed), "context": len(ent)}
        case["typing_ctx"] = [{"term": conc.term(e[1]), "offset": 0 if e[0] == "param" else 1} for e in ent]
        case["defs_ctx"] = [None if e[0] == "param" else {"term": conc.term(e[2]), "offset": 1} for e in ent]
        case["entries"] = [[e[0]] + [conc.term(x) for x in e[1:]] for e in ent]
        case["cells"] = conc.cells_table()
        return case
    ex.f.locals["c18_info"] = info
    tb, db = snapshot(typing), snapshot(defs)
    try:
        res, _, _ = TC.call_type_check(it, root, typing, defs)
    except FuelExhausted:
        ex.count("fuel")
        return
    verdict = res.variant
    ex.count(verdict)
    ex.check(z_and(same_vec(ex, tb, typing, it), same_vec(ex, db, defs, it)), "X1.contexts-restored (%s)" % verdict, info=info)
    # (2) the closed program
    try:
        res2, _, _ = TC.call_type_check(it, closed)
    except FuelExhausted:
        ex.count("fuel")
        return
    # holes solved by the first run stay solved: only compare verdicts when the first run accepted,
    # or when the program has no holes at all (a rejected first run may leave partial solutions)
    if verdict == "Ok" or not ex.f.store:
        ex.check(res2.variant == verdict, "X2.closed-program-verdict (open: %s, closed: %s)" % (verdict, res2.variant), info=info)
    # (2b) "... and an equal type": the type reported for the closed program is the open type closed
    # the same way (function types for parameters, the group for definitions)
    if verdict == "Ok" and res2.variant == "Ok":
        t_open, t_closed = res.fields[0][1], res2.fields[0][1]
        rc = RefChecker(ex, TC.concretize_ctor, fuel=600)
        import c19
        try:
            # types with unresolved holes are outside the claim (the two runs have their own holes)
            t_open, t_closed = c19.zonk(ex, t_open), c19.zonk(ex, t_closed)
            same = rc.conv(t_closed, close(t_open, ent, binder="Pi"), [])
        except RefUnknown as u:
            ex.count("outside:" + u.why)
            return
        ex.check(same, "X4.closed-program-type-is-the-closed-open-type", info=info)


def make_factory(H, budget):
    def make():
        ex, it = H.engine(node_budget=budget - 1, solver_timeout_ms=120000)
        ex.fuel = 40000
        it.max_call_depth = 600
        sp = TC.ProgramSpace("p", budget, TC.WITH_HOLES, scope=0)
        root = sp.root()

        def body(ex):
            it.call_depth = 0
            try:
                obligations(ex, it, root)
            except PanicEx as p:
                ex.check(False, "X0.PANIC %s (%s.rs:%s)" % (p.msg, p.module, p.line), info=ex.f.locals.get("c18_info"))
        return ex, body, None
    return make


def normalize_obligations(H):
    """(3): normalize_weak_head(Var k) under a context of three entries with symbolic offsets."""
    def make():
        ex, it = H.engine(solver_timeout_ms=120000)
        ex.fuel = 20000
        k = z3.Int("k")
        ex.assumptions_extra = [k >= 0, k <= 2]

        def body(ex):
            it.call_depth = 0
            ex.assume(z3.And(k >= 0, k <= 2))
            lits = [z3.Int("d%d" % i) for i in range(3)]
            which = [ex.choose(3) for _ in range(3)]    # 0: no definition, 1: literal, 2: variable of an older entry
            defs = VecV()
            ref_ctx = []
            for i in range(3):
                off = 1
                if which[i] == 0:
                    defs.append(none())
                    ref_ctx.append(Entry(None, None, i))
                elif which[i] == 1:
                    d = T.lit(lits[i])
                    defs.append(some(TupleV([d, off])))
                    ref_ctx.append(Entry(None, d, i + off))
                else:
                    d = T.var("older", 1)    # valid at level i+1: refers to entry i-1 (if any)
                    if i == 0:
                        d = T.lit(lits[i])
                    defs.append(some(TupleV([d, off])))
                    ref_ctx.append(Entry(None, d, i + off))
            before = snapshot(defs)
            t = T.var("v", k)
            try:
                r = it.call("normalizer", "normalize_weak_head", [t, defs])
            except FuelExhausted:
                return
            rc = RefChecker(ex, None, fuel=500)
            try:
                want = rc.whnf(t, ref_ctx)
            except RefUnknown:
                return
            def info(m):
                conc = T.Concretizer(ex, m)
                dj = []
                for e in defs:
                    dj.append(None if e.variant == "None" else {"term": conc.term(e.fields[0][0]), "offset": e.fields[0][1]})
                return {"k": T.mval(m, k), "defs_ctx": dj}
            ex.check(T.term_eq(ex, r, want, T.EqOpts(names=False)), "X3.variable-normalises-to-its-definition", info=info)
            ex.check(same_vec(ex, before, defs, it), "X1.contexts-restored (normalize)", info=info)
        return ex, body, None
    return make


def confirm(H, label, case):
    replay = H.get_replay()
    if label.startswith("X3"):
        return confirm_normalize(H, case)
    shown = "program %s under a context of %d entries" % (T.show(case["t"], case.get("cells")), case.get("context", 0))
    r = replay.call({"op": "type_check", "term": case["t"], "cells": case["cells"], "typing_ctx": case["typing_ctx"],
                     "defs_ctx": case["defs_ctx"], "source": ""})
    if "typing_ctx" not in r:
        return True, "%s: compiled type_check failed: %s" % (shown, r)
    if label.startswith("X0"):
        r2 = replay.call({"op": "type_check", "term": case["closed"], "cells": case["cells"], "typing_ctx": [], "defs_ctx": [], "source": ""})
        return ("panic" in r2 or "crash" in r2), "%s: no panic under the context; closed program: %s" % (shown, str(r2)[:200])
    if label.startswith("X1"):
        same = (T.canon(r["typing_ctx"], drop_sr=True) == T.canon(case["typing_ctx"], drop_sr=True) and
                [None if e is None else T.canon(e, drop_sr=True) for e in r["defs_ctx"]] ==
                [None if e is None else T.canon(e, drop_sr=True) for e in case["defs_ctx"]])
        return (not same), "%s: contexts after the call: %d typing entries, %d definition entries" % (shown, len(r["typing_ctx"]), len(r["defs_ctx"]))
    r2 = replay.call({"op": "type_check", "term": case["closed"], "cells": case["cells"], "typing_ctx": [], "defs_ctx": [], "source": ""})
    v1 = "Ok" if "ok" in r else "Err"
    v2 = "Ok" if "ok" in r2 else "Err"
    if label.startswith("X4"):
        if v1 != "Ok" or v2 != "Ok":
            return False, "%s: verdicts %s / %s" % (shown, v1, v2)
        cx = ConcreteCtx()
        objs = {}
        import c19
        zo, zc = c19.zonk_json(r["ok"]["type"], r["cells"]), c19.zonk_json(r2["ok"]["type"], r2["cells"])
        if zo is None or zc is None:
            return False, "%s: a reported type has unresolved holes" % shown
        t_open = T.from_json(zo, {}, objs)
        t_closed = T.from_json(zc, {}, {})
        ent = [tuple([e[0]] + [T.from_json(x) for x in e[1:]]) for e in case["entries"]]
        rc = RefChecker(cx, TC.concretize_ctor, fuel=2000)
        try:
            same = rc.conv(t_closed, close(t_open, ent, binder="Pi"), [])
        except RefUnknown as u:
            return False, "%s: reference cannot compare the types (%s)" % (shown, u.why)
        return (not same), "%s has type %s; the closed program %s has type %s, which is not the open type closed over the context" % (
            shown, r["ok"]["type_shown"], T.show(case["closed"], case.get("cells")), r2["ok"]["type_shown"])
    return (v1 != v2), "%s: verdict %s; closed program %s: verdict %s" % (shown, v1, T.show(case["closed"], case.get("cells")), v2)


def confirm_normalize(H, case):
    replay = H.get_replay()
    r = replay.call({"op": "normalize_weak_head", "term": {"v": "Variable", "name": "v", "index": case["k"], "sr": None},
                     "defs_ctx": case["defs_ctx"], "cells": {}})
    cx = ConcreteCtx()
    ref_ctx = []
    for i, e in enumerate(case["defs_ctx"]):
        ref_ctx.append(Entry(None, None, i) if e is None else Entry(None, T.from_json(e["term"]), i + e["offset"]))
    rc = RefChecker(cx, None, fuel=500)
    want = T.Concretizer(cx, empty_model()).term(rc.whnf(T.var("v", case["k"]), ref_ctx))
    got = r.get("result")
    differs = got is None or T.canon(got, drop_sr=True, drop_names=True) != T.canon(want, drop_sr=True, drop_names=True)
    return differs, "normalize_weak_head(Var %d) under %s gives %s, reference %s" % (
        case["k"], [None if e is None else T.show(e["term"]) for e in case["defs_ctx"]], T.show(got) if got else r, T.show(want))


def main():
    H = Harness(PID)
    quick = H.tier == "quick"
    if H.args.replay:
        with open(H.args.replay) as fh:
            rec = json.load(fh)
        reproduced, detail = confirm(H, rec["label"], rec["case"])
        print(("REPRODUCED: " if reproduced else "NOT REPRODUCED: ") + detail)
        return 1 if reproduced else 0
    c03.validate(H, 100 if quick else 500)
    validate_contexts(H, 60 if quick else 300)
    budget = 4 if quick else 5
    import c06
    import c12
    if quick:
        c12.GAMMAS[:] = [1, 3]
    parts = [("type_check under 9 context shapes, B(%d) with holes" % budget, make_factory(H, budget), confirm),
             ("normalize_weak_head of context variables", normalize_obligations(H), confirm),
             ("unify under contexts, every former over leaves on both sides: context restored, verdict = reference under the same context",
              c06.make_pairs(H, 0, 0, family=True, formers=c06.FORMERS_QUICK if quick else c06.FORMERS), c06.confirm)]
    only = os.environ.get("C18_PARTS")
    if only:
        parts = [p for i, p in enumerate(parts) if str(i) in only.split(",")]
    for name, mk, cf in parts:
        t0 = time.time()
        m = parallel_explore(mk, H.jobs)
        H.absorb_merged(name, m)
        H.log("%s: %d paths %s, %d obligations, %d discharged, %d workers, %.1fs" % (
            name, m.stats.get("paths", 0), m.counters, m.stats.get("obligations", 0), m.stats.get("discharged", 0), m.workers, time.time() - t0))
        c03.handle(H, m.violations, confirm_fn=cf, classify_fn=lambda l, c: None)
    H.bounds.update({"programs": "parser-shaped terms of at most %d nodes with holes, open in 9 contexts of 1-3 entries mixing parameters, definitions, type-level aliases and a two-definition group" % budget,
                     "outside": "longer contexts, larger terms"})
    return H.finish()


def validate_contexts(H, n):
    """Concrete differential under a non-empty context: interpreter vs compiled type_check, including
    the contexts handed back."""
    if H.worker:
        return
    from gramsym.termgen import random_program
    replay = H.get_replay()
    ex, it = H.engine()
    ex.frames.append(Frame(ex._new_solver()))
    em = empty_model()
    bad = 0
    I_ = {"v": "Integer", "sr": None}
    for i in range(n):
        ex.fuel_left = 10 ** 6
        ex.eval_left = 10 ** 8
        it.call_depth = 0
        tj, cells = random_program(H.rng, depth=H.rng.randint(1, 3), holes=(i % 2 == 0), scope=2)
        tctx = [{"term": I_, "offset": 0}, {"term": I_, "offset": 1}]
        dctx = [None, {"term": {"v": "IntegerLiteral", "value": "5", "sr": None}, "offset": 1}]
        cell_objs = {}
        tv = T.from_json(tj, cells, cell_objs)
        typing = VecV([TupleV([T.from_json(I_), 0]), TupleV([T.from_json(I_), 1])])
        defs = VecV([none(), some(TupleV([T.lit(5), 1]))])
        try:
            res, _, _ = TC.call_type_check(it, tv, typing, defs)
        except FuelExhausted:
            continue
        exp = replay.call({"op": "type_check", "term": tj, "cells": cells, "typing_ctx": tctx, "defs_ctx": dctx, "source": ""})
        if "crash" in exp or "timeout" in exp:
            continue
        ok_i = res.variant == "Ok"
        ok_n = "ok" in exp
        if ok_i != ok_n or len(typing) != len(exp["typing_ctx"]) or len(defs) != len(exp["defs_ctx"]):
            bad += 1
            H.mismatches.append({"label": "validate.context", "case": {"t": tj}, "detail": "interpreter %s / compiled %s" % (res.variant, list(exp)[:3])})
        H.validated += 1
    ex.frames.pop()
    H.functions |= ex.functions_executed
    H.log("encoder validation under a context: %d programs, %d disagreements" % (n, bad))


if __name__ == "__main__":
    run_main(main)
