"""C19 -- meaning-preserving rewrites change neither acceptance nor result.

A relational check with no reference implementation: the real pipeline is executed twice on the same
symbolic program, once as it is and once rewritten, and z3 decides that acceptance and the value
agree for every program on the path.

T  term level (type_check -> evaluate, both real): the program p is a symbolic parser-shaped term;
   two views of the same solver variables with separate hole cells are built, so the two runs do not
   see each other's hole solutions.  Rewrites at the root:
     R1 add an unused definition            u = 0; p
     R2 name the program with a definition  n = p; n
     R3 immediately applied annotated identity  ((i : T) => i) p   with T the type reported for p
     R4 if true then p else p
   Obligations: accepted(p) => accepted(R p), rejected(p) => rejected(R p) (R3 applies to accepted
   programs only), and the values are the same term up to names.
K  token level (the real parser on symbolic token sequences):
     R6 swapping the two names everywhere (a consistent renaming) gives the same term up to names
        and the same acceptance;
     R7 parentheses around the whole program, and around any single atom, give the same term.

I  the same at an INNER group, and reordering (hole-free families: a group under a binder, the same
   applied to an argument, a group of two annotated functions).  The rewritten program is built from
   a second view of the same symbolic nodes whose variable indices are mapped by a formula over the
   constructor tags (inputs.MappedTerm): +1 for indices that point outside the group when a
   definition is inserted, exchanged when two definitions are swapped:
     I1e/I1f an unused definition appended to / put in front of the inner group
     I2  the group's body named by a new last definition
     I4  the group's body wrapped in `if true then .. else ..`
     I5  the two function definitions of a group exchanged

Not covered: the applied identity at inner sites, sequences of rewrites, the CLI."""
import json
import os
import sys
import time

import z3

sys.path.insert(0, os.path.dirname(os.path.dirname(os.path.abspath(__file__))))

from gramsym.harness import Harness, run_main
from gramsym import inputs as I, terms as T, tokens as K
from gramsym.values import (Adt, Struct, TupleV, VecV, Str, Big, CellV, Union, none, some, z_and, z_or, z_not, z_eq, InternalError)
from gramsym.explorer import PathAbort, FuelExhausted, Frame
from gramsym.interp import PanicEx
from gramsym.parallel import parallel_explore
from gramsym.refs import Refs, RefUnknown
import tc_common as TC
import c03

PID = "C19"


class TwinSpace(TC.ProgramSpace):
    """The same symbolic program (same solver variables, same per-path decisions) with its own hole
    cells."""

    def cell_for(self, node):
        c = self.cells.get(node.uid)
        if c is None:
            c = CellV("twin:" + node.uid, content=none(), persistent=True)
            self.cells[node.uid] = c
        return c


def fresh_hole(tag, shift):
    return T.mk("Unifier", [CellV("rw:" + tag, content=none(), persistent=True), shift])


def rewrite(kind, q, ty=None):
    if kind == "R1":
        return T.mk("Let", [VecV([TupleV(["unused", fresh_hole("r1", 1), T.mk("IntegerLiteral", [Big(0)])])]), q])
    if kind == "R2":
        return T.mk("Let", [VecV([TupleV(["named", fresh_hole("r2", 1), q])]), T.mk("Variable", ["named", 0])])
    if kind == "R3":
        return T.mk("Application", [T.mk("Lambda", ["i", False, ty, T.mk("Variable", ["i", 0])]), q])
    if kind == "R4":
        return T.mk("If", [T.mk("True", []), q, q])
    raise InternalError(kind)


def zonk(ex, t):
    """The term rebuilt with every solved hole replaced by its (shifted) solution; RefUnknown if a
    hole is unresolved."""
    R = Refs(ex, TC.concretize_ctor)
    R.follow_holes = True
    R.work_left = 4000

    def go(x):
        vs = R.views(x)
        if len(vs) != 1:
            raise InternalError("zonk: merged term")
        _, ct, adt = vs[0]
        f = adt.fields
        if ct == "Variable" or ct == "IntegerLiteral":
            return T.mk(ct, list(f))
        if ct in ("Lambda", "Pi"):
            return T.mk(ct, [f[0], f[1], go(f[2]), go(f[3])])
        if ct.startswith("Let"):
            defs = VecV([TupleV([d[0], go(d[1]), go(d[2])]) for d in f[0]])
            return T.mk("Let", [defs, go(f[1])])
        return T.mk(ct, [go(k) for k in f])
    return go(t)


def pipeline(ex, it, term):
    """('rejected', n) | ('accepted', elaborated, type, value | None) | ('under-determined',)"""
    res, _, _ = TC.call_type_check(it, term)
    if res.variant != "Ok":
        return ("rejected", len(res.fields[0]))
    e, ty = res.fields[0]
    try:
        zonk(ex, e)
        ty = zonk(ex, ty)
    except RefUnknown:
        return ("under-determined",)
    ev = it.resolve(it.call("evaluator", "evaluate", [e]))
    if ev.variant != "Ok":
        return ("accepted", e, ty, None)
    try:
        v = zonk(ex, ev.fields[0])
    except RefUnknown:
        return ("under-determined",)
    return ("accepted", e, ty, v)


def term_obligations(kinds, extra=None):
    def ob(ex, it, root, twin):
        info = lambda m: TC.input_case(ex, m, root)
        try:
            errs = VecV()
            it.call("parser", "check_definitions", [none(), Str(""), root, 0, errs])
            if len(errs):
                ex.count("fails-definition-order")
                return
            a = pipeline(ex, it, root)
        except FuelExhausted:
            ex.count("fuel")
            return
        ex.count(a[0])
        if a[0] == "under-determined":
            # accepted with unresolved holes: the known finding of C01; acceptance of such programs
            # is not a meaningful baseline
            return

        def compare(kind, rewritten, more=None):
            try:
                errs2 = VecV()
                it.call("parser", "check_definitions", [none(), Str(""), rewritten, 0, errs2])
                b = ("rejected", len(errs2)) if len(errs2) else pipeline(ex, it, rewritten)
            except FuelExhausted:
                ex.count("fuel:" + kind)
                ex.fuel_left = max(ex.fuel_left, 2000)
                return
            except PanicEx as p:
                # the program as written went through; its rewriting makes the real code panic
                ex.check(False, "%s.rewritten-program-panics: %s (%s.rs:%s)" % (kind, p.msg, p.module, p.line),
                         info=lambda m, kind=kind: dict(TC.input_case(ex, m, root), rewrite=kind, **(more or {})))
                return
            info2 = lambda m, kind=kind: dict(TC.input_case(ex, m, root), rewrite=kind, **(more or {}))
            if b[0] == "under-determined":
                ex.count("rewritten-under-determined:" + kind)
                return
            if a[0] != b[0]:
                ex.check(False, "%s.acceptance-changes (%s, rewritten %s)" % (kind, a[0], b[0]), info=info2)
                return
            if a[0] == "rejected":
                ex.check(True, "%s.both-rejected" % kind)
                return
            if (a[3] is None) != (b[3] is None):
                ex.check(False, "%s.one-run-gets-stuck" % kind, info=info2)
                return
            if a[3] is None:
                return
            if (more or {}).get("values") == "ground":
                # a function value contains the rewritten text itself: only ground results are observable
                va = T.views(ex, a[3])
                if len(va) != 1 or va[0][1] not in GROUND:
                    ex.count("function-value-not-compared:" + kind)
                    return
            same = T.term_eq(ex, a[3], b[3], T.EqOpts(names=False, source_ranges=False, cell_eq=lambda x, y: True))

            def info3(m, kind=kind, va=a[3], vb=b[3]):
                d = dict(TC.input_case(ex, m, root), rewrite=kind, **(more or {}))
                try:
                    c = T.Concretizer(ex, m)
                    d["values"] = [T.show(c.term(va), c.cells_table()), T.show(c.term(vb), c.cells_table())]
                except Exception as e:
                    d["values"] = repr(e)
                return d
            ex.check(same, "%s.value-changes" % kind, info=info3)
        for kind in kinds:
            ty = None
            if kind == "R3":
                if a[0] != "accepted":
                    continue
                ty = a[2]
            compare(kind, rewrite(kind, twin, ty))
        if extra is not None:
            extra(ex, it, root, twin, a, compare)
    return ob


def term_factory(H, budget, alphabet, kinds, fuel):
    ob = term_obligations(kinds)

    def make():
        ex, it = H.engine(node_budget=budget - 1, solver_timeout_ms=120000)
        ex.fuel = fuel
        it.max_call_depth = 700
        sp = TC.ProgramSpace("p", budget, alphabet, scope=0)
        tw = TwinSpace("p", budget, alphabet, scope=0)
        root = sp.root()
        twin = tw.root()

        def body(ex):
            it.call_depth = 0
            try:
                ob(ex, it, root, twin)
            except PanicEx as p:
                ex.check(False, "PANIC %s (%s.rs:%s)" % (p.msg, p.module, p.line), info=lambda m: TC.input_case(ex, m, root))
        return ex, body, None
    return make


# =================================================================================================
# rewrites at an inner group (I) and reordering of function definitions (I5)
GROUND = ("IntegerLiteral", "True", "False", "Integer", "Boolean", "Type")
INNER_LABEL = {"I1e": "an unused definition appended to an inner group",
               "I1f": "an unused definition put in front of an inner group",
               "I2": "the body of an inner group named by a new last definition",
               "I4": "the body of an inner group wrapped in `if true then .. else ..`",
               "I5": "the two function definitions of a group exchanged"}


class RewriteSpace(TwinSpace):
    """Twin view whose variable indices are mapped inside regions (see inputs.MappedTerm)."""
    node_class = I.MappedTerm

    def __init__(self, prefix, budget, alphabet, regions, mode):
        self.regions = regions          # uid of a region root -> number of binders of the region that keep their index
        self.mode = mode                # ("shift", amount) | ("swap",)
        TwinSpace.__init__(self, prefix, budget, alphabet, scope=None)

    def index_map(self, node):
        n = node
        while n is not None and n.uid not in self.regions:
            n = n.parent
        if n is None:
            return None
        cut = z3.IntVal(self.regions[n.uid])
        cur = node
        while cur is not n:
            cut = cut + I.binder_contribution(cur.parent, cur.slot)
            cur = cur.parent
        cut = z3.simplify(cut)
        if self.mode[0] == "shift":
            a = self.mode[1]
            return lambda idx: z3.If(idx >= cut, idx + a, idx)
        return lambda idx: z3.If(idx == cut, cut + 1, z3.If(idx == cut + 1, cut, idx))


def node_at(root, path):
    n = root
    for i in path:
        n = n.kid(i)
    return n


def single_ctor(ex, node):
    a = ex.allowed(node)
    if len(a) != 1:
        raise InternalError("spine node %s not decided: %s" % (node.uid, sorted(a)))
    return next(iter(a))


def rebuild(ex, tw_node, path, repl):
    """The twin program with the subterm at `path` replaced."""
    if not path:
        return repl
    ct = single_ctor(ex, tw_node)
    kids = [tw_node.kid(i) for i in range(I.ARITY[ct])]
    kids[path[0]] = rebuild(ex, kids[path[0]], path[1:], repl)
    if ct in ("Lambda", "Pi"):
        return T.mk(ct, [tw_node.name, tw_node.implicit, kids[0], kids[1]])
    if ct.startswith("Let"):
        n = I.let_n(ct)
        return T.mk("Let", [VecV([TupleV([tw_node.space.def_name(tw_node, i), kids[2 * i], kids[2 * i + 1]]) for i in range(n)]), kids[2 * n]])
    return T.mk(ct, kids)


def inner_rewrite(ex, kind, spaces, twin, let_path):
    """The rewritten program, or None if the rewrite does not apply on this path."""
    L = node_at(twin, let_path)
    ct = single_ctor(ex, L)
    n = I.let_n(ct)
    dn = lambda i: L.space.def_name(L, i)
    if kind == "I4":
        body = L.kid(2 * n)
        new = T.mk("Let", [VecV([TupleV([dn(i), L.kid(2 * i), L.kid(2 * i + 1)]) for i in range(n)]), T.mk("If", [T.mk("True", []), body, body])])
        return rebuild(ex, twin, let_path, new)
    if kind == "I5":
        if n != 2 or ex.allowed(L.kid(1)) != frozenset(["Lambda"]) or ex.allowed(L.kid(3)) != frozenset(["Lambda"]):
            return None
    M = node_at(spaces[(kind, n)].root(), let_path)
    unused = TupleV(["unused", T.mk("Integer", []), T.mk("IntegerLiteral", [Big(0)])])
    defs = [TupleV([dn(i), M.kid(2 * i), M.kid(2 * i + 1)]) for i in range(n)]
    body = M.kid(2 * n)
    if kind == "I1e":
        new = T.mk("Let", [VecV(defs + [unused]), body])
    elif kind == "I1f":
        new = T.mk("Let", [VecV([unused] + defs), body])
    elif kind == "I2":
        new = T.mk("Let", [VecV(defs + [TupleV(["named", fresh_hole("i2", 1), body])]), T.mk("Variable", ["named", 0])])
    elif kind == "I5":
        new = T.mk("Let", [VecV([defs[1], defs[0]]), body])
    else:
        raise InternalError(kind)
    return rebuild(ex, twin, let_path, new)


def rewrite_spaces(budget, alphabet, let_path):
    """One mapped view per (rewrite, group size)."""
    u = ".".join(["p"] + [str(i) for i in let_path])
    out = {}
    for n in (1, 2, 3):
        kids = ["%s.%d" % (u, s) for s in range(2 * n + 1)]
        out[("I1e", n)] = RewriteSpace("p", budget, alphabet, {k: 0 for k in kids}, ("shift", 1))
        out[("I2", n)] = out[("I1e", n)]
        out[("I1f", n)] = RewriteSpace("p", budget, alphabet, {k: n for k in kids}, ("shift", 1))
        out[("I5", n)] = RewriteSpace("p", budget, alphabet, {k: 0 for k in kids}, ("swap",))
    return out


def inner_factory(H, budget, alphabet, kinds, let_path, fuel, values="ground"):
    def make():
        ex, it = H.engine(node_budget=budget - 1, solver_timeout_ms=120000)
        ex.fuel = fuel
        it.max_call_depth = 700
        sp = TC.ProgramSpace("p", budget, alphabet, scope=0)
        tw = TwinSpace("p", budget, alphabet, scope=0)
        spaces = rewrite_spaces(budget, alphabet, let_path)
        root, twin = sp.root(), tw.root()

        def extra(ex, it, root, twin, a, compare):
            for kind in kinds:
                t = inner_rewrite(ex, kind, spaces, twin, let_path)
                if t is None:
                    ex.count("not-applicable:" + kind)
                    continue
                compare(kind, t, {"let_path": list(let_path), "values": values})
        ob = term_obligations([], extra=extra)

        def body(ex):
            it.call_depth = 0
            try:
                ob(ex, it, root, twin)
            except PanicEx as p:
                ex.check(False, "PANIC %s (%s.rs:%s)" % (p.msg, p.module, p.line), info=lambda m: TC.input_case(ex, m, root))
        return ex, body, None
    return make


def operand_factory(H, fuel=20000):
    """Rewrites of an OPERAND: `a op b` against `a op (if true then b else b)` and
    `a op (((i : int) => i) b)`, for every arithmetic and comparison operator and negation over
    literals and sums of literals (all values symbolic).  The rewrite changes whether the operand is
    already a value when the operator is evaluated -- nothing else."""
    def alpha(node):
        if node.depth == 1:
            return I.BINARY + ["Negation"]
        if node.depth == 2:
            return ["IntegerLiteral", "Sum"]
        return ["IntegerLiteral"]

    def make():
        ex, it = H.engine(solver_timeout_ms=120000)
        ex.fuel = fuel
        sp = TC.ProgramSpace("p", 3, alpha, scope=0)
        tw = TwinSpace("p", 3, alpha, scope=0)
        root, twin = sp.root(), tw.root()

        def extra(ex, it, root, twin, a, compare):
            ct = single_ctor(ex, twin) if len(ex.allowed(twin)) == 1 else None
            arity = 1 if ex.allowed(twin) == frozenset(["Negation"]) else 2
            for slot in range(arity):
                e = twin.kid(slot)
                ident = T.mk("Lambda", ["i", False, T.mk("Integer", []), T.mk("Variable", ["i", 0])])
                for kind, wrapped in (("O4", T.mk("If", [T.mk("True", []), e, e])), ("O3", T.mk("Application", [ident, e]))):
                    kids = [twin.kid(i) for i in range(arity)]
                    kids[slot] = wrapped
                    # the root's constructor may still be a set (all binary operators share one arm):
                    # rebuild per constructor
                    for c in sorted(ex.allowed(twin)):
                        if len(ex.allowed(twin)) > 1 and not ex.decide_ctor(twin, frozenset([c])):
                            continue
                        compare(kind, T.mk(c, kids), {"let_path": [slot], "values": "ground"})
                        break
        ob = term_obligations([], extra=extra)

        def body(ex):
            it.call_depth = 0
            try:
                ob(ex, it, root, twin)
            except PanicEx as p:
                ex.check(False, "PANIC %s (%s.rs:%s)" % (p.msg, p.module, p.line), info=lambda m: TC.input_case(ex, m, root))
        return ex, body, None
    return make


def inner_families():
    """(name, alphabet, node budget, path of the group).  Hole-free programs."""
    out = []
    for name, alpha, budget in TC.interplay_families(False, "GHICD"):
        # unapplied: the program's value is the function itself (acceptance is what is compared);
        # applied: the group is evaluated away, the values are compared in full
        path = {"alpha": [1], "applied": [0, 1], "applied_twice": [0, 0, 1]}[alpha.__name__]
        out.append((name, alpha, budget, path, "ground" if alpha.__name__ == "alpha" else "full"))

    def functions_group(node):
        # f : int -> int = (n : int) => ..; g : int -> int = (m : int) => ..; body
        d, s = node.depth, node.slot
        if d == 1:
            return ["Let2"]
        if d == 2:
            return ["Pi"] if s in (0, 2) else (["Lambda"] if s in (1, 3) else ["Application"])
        if d == 3:
            ps = node.parent.slot
            if ps in (0, 2):
                return ["Integer"]
            if ps in (1, 3):
                return ["Integer"] if s == 0 else ["Sum", "Application"]
            return ["Variable"] if s == 0 else ["IntegerLiteral"]
        return ["Variable"] if s == 0 else ["Variable", "IntegerLiteral"]
    out.append(("a group of two annotated int -> int functions (possibly calling each other) and a body that uses them", functions_group, 25, [], "ground"))
    sel = os.environ.get("C19_INNER")
    if sel:
        out = [f for i, f in enumerate(out) if str(i) in sel]
    return out


def swap_json(j, c):
    """Exchange the indices c and c+1 (two adjacent members of a group) in term JSON."""
    if isinstance(j, list):
        return [swap_json(x, c) for x in j]
    if not isinstance(j, dict):
        return j
    v = j.get("v")
    out = dict(j)
    if v == "Variable":
        if j["index"] == c:
            out["index"] = c + 1
        elif j["index"] == c + 1:
            out["index"] = c
    elif v in ("Lambda", "Pi"):
        out["kids"] = [swap_json(j["kids"][0], c), swap_json(j["kids"][1], c + 1)]
    elif v == "Let":
        n = len(j["defs"])
        out["defs"] = [{"name": d["name"], "ann": swap_json(d["ann"], c + n), "def": swap_json(d["def"], c + n)} for d in j["defs"]]
        out["body"] = swap_json(j["body"], c + n)
    elif "kids" in j:
        out["kids"] = [swap_json(x, c) for x in j["kids"]]
    return out


def inner_json(kind, tj, path):
    """The same inner rewrites on term JSON (native confirmation)."""
    def at(j, path):
        if not path:
            return rewrite_let(j)
        out = dict(j)
        i = path[0]
        if j["v"] == "Let":
            n = len(j["defs"])
            if i == 2 * n:
                out["body"] = at(j["body"], path[1:])
            else:
                defs = [dict(d) for d in j["defs"]]
                defs[i // 2]["ann" if i % 2 == 0 else "def"] = at(defs[i // 2]["ann" if i % 2 == 0 else "def"], path[1:])
                out["defs"] = defs
        else:
            kids = list(j["kids"])
            kids[i] = at(kids[i], path[1:])
            out["kids"] = kids
        return out

    def rewrite_let(L):
        n = len(L["defs"])
        out = dict(L)
        unused = {"name": "unused", "ann": {"v": "Integer", "sr": None}, "def": {"v": "IntegerLiteral", "sr": None, "value": "0"}}
        if kind == "I4":
            out["body"] = {"v": "If", "sr": None, "kids": [{"v": "True", "sr": None}, L["body"], L["body"]]}
            return out
        if kind == "I5":
            d = [{"name": x["name"], "ann": swap_json(x["ann"], 0), "def": swap_json(x["def"], 0)} for x in L["defs"]]
            out["defs"] = [d[1], d[0]]
            out["body"] = swap_json(L["body"], 0)
            return out
        c = n if kind == "I1f" else 0
        d = [{"name": x["name"], "ann": shift_json(x["ann"], c, 1), "def": shift_json(x["def"], c, 1)} for x in L["defs"]]
        body = shift_json(L["body"], c, 1)
        if kind == "I1e":
            out["defs"], out["body"] = d + [unused], body
        elif kind == "I1f":
            out["defs"], out["body"] = [unused] + d, body
        else:
            out["defs"] = d + [{"name": "named", "ann": {"v": "Unifier", "cell": 9003, "shift": 1, "sr": None}, "def": body}]
            out["body"] = {"v": "Variable", "sr": None, "name": "named", "index": 0}
        return out
    return at(tj, path)


def wrap_json(kind, tj, ty=None, path=None):
    hole = lambda c: {"v": "Unifier", "cell": c, "shift": 1, "sr": None}
    if kind.startswith("I"):
        return inner_json(kind, tj, path or [])
    if kind.startswith("O"):
        out = dict(tj)
        kids = list(tj["kids"])
        e = kids[path[0]]
        if kind == "O4":
            kids[path[0]] = {"v": "If", "sr": None, "kids": [{"v": "True", "sr": None}, e, e]}
        else:
            ident = {"v": "Lambda", "sr": None, "name": "i", "implicit": False, "kids": [{"v": "Integer", "sr": None}, {"v": "Variable", "sr": None, "name": "i", "index": 0}]}
            kids[path[0]] = {"v": "Application", "sr": None, "kids": [ident, e]}
        out["kids"] = kids
        return out
    if kind == "R1":
        return {"v": "Let", "sr": None, "defs": [{"name": "unused", "ann": hole(9001), "def": {"v": "IntegerLiteral", "sr": None, "value": "0"}}], "body": tj}
    if kind == "R2":
        return {"v": "Let", "sr": None, "defs": [{"name": "named", "ann": hole(9002), "def": tj}], "body": {"v": "Variable", "sr": None, "name": "named", "index": 0}}
    if kind == "R3":
        return {"v": "Application", "sr": None, "kids": [{"v": "Lambda", "sr": None, "name": "i", "implicit": False, "kids": [ty, {"v": "Variable", "sr": None, "name": "i", "index": 0}]}, tj]}
    return {"v": "If", "sr": None, "kids": [{"v": "True", "sr": None}, tj, tj]}


def confirm_term(H, label, case):
    """Native: the compiled type checker and evaluator on the program and on its rewriting."""
    replay = H.get_replay()
    kind = case.get("rewrite") or label.split(".")[0]
    cells = dict(case.get("cells", {}))
    a = TC.native_type_check(replay, {"t": case["t"], "cells": cells}, run=True)
    shown = T.show(case["t"], cells)
    if "panic" in a:
        return True, "type_check(%s) panics: %s" % (shown, a["panic"])
    ty = None
    if kind == "R3":
        if "ok" not in a:
            return False, "the program %s is rejected; the identity rewrite needs its type" % shown
        ty = zonk_json(a["ok"]["type"], a["cells"])
        if ty is None:
            return False, "the type of %s has unresolved holes" % shown
    cells2 = dict(cells)
    cells2["9001"] = None
    cells2["9002"] = None
    cells2["9003"] = None
    b = TC.native_type_check(replay, {"t": wrap_json(kind, case["t"], ty, case.get("let_path")), "cells": cells2}, run=True)
    if "panic" in b:
        return True, "the rewritten program panics: %s" % b["panic"]
    acc_a, acc_b = "ok" in a, "ok" in b
    if acc_a != acc_b:
        return True, "%s is %s, its %s rewriting is %s%s" % (shown, "accepted" if acc_a else "rejected", kind, "accepted" if acc_b else "rejected",
                                                         "" if acc_b else ": " + b["err"][0].split("\n")[0])
    if not acc_a:
        return False, "both rejected"
    ra, rb = a["ok"]["run"], b["ok"]["run"]
    if ("ok" in ra) != ("ok" in rb):
        return True, "%s: evaluation %s, of the %s rewriting %s" % (shown, "succeeds" if "ok" in ra else "fails", kind, "succeeds" if "ok" in rb else "fails")
    if "ok" not in ra:
        return False, "both stuck"
    va = zonk_json(ra["ok"], a["cells"])
    vb = zonk_json(rb["ok"], b["cells"])
    if va is None or vb is None:
        return False, "a value has unresolved holes"
    va, vb = strip(T.canon(va)), strip(T.canon(vb))
    if va != vb:
        return True, "%s evaluates to %s, its %s rewriting to %s" % (shown, ra["shown"], kind, rb["shown"])
    return False, "%s and its %s rewriting agree (%s)" % (shown, kind, ra["shown"])


def shift_json(j, c, a):
    if isinstance(j, list):
        return [shift_json(x, c, a) for x in j]
    if not isinstance(j, dict):
        return j
    v = j.get("v")
    out = dict(j)
    if v == "Variable":
        if j["index"] >= c:
            out["index"] = j["index"] + a
    elif v == "Unifier":
        out["shift"] = j["shift"] + a if False else j["shift"]
    elif v in ("Lambda", "Pi"):
        out["kids"] = [shift_json(j["kids"][0], c, a), shift_json(j["kids"][1], c + 1, a)]
    elif v == "Let":
        n = len(j["defs"])
        out["defs"] = [{"name": d["name"], "ann": shift_json(d["ann"], c + n, a), "def": shift_json(d["def"], c + n, a)} for d in j["defs"]]
        out["body"] = shift_json(j["body"], c + n, a)
    elif "kids" in j:
        out["kids"] = [shift_json(x, c, a) for x in j["kids"]]
    return out


def zonk_json(j, cells):
    """Follow solved holes (content shifted by the hole's shift); None if a hole is unresolved."""
    if isinstance(j, list):
        out = [zonk_json(x, cells) for x in j]
        return None if any(x is None for x in out) else out
    if not isinstance(j, dict):
        return j
    if j.get("v") == "Unifier":
        content = cells.get(str(j["cell"]))
        if content is None:
            return None
        inner = zonk_json(content, cells)
        return None if inner is None else shift_json(inner, 0, j["shift"])
    out = {}
    for k, v in j.items():
        if isinstance(v, (dict, list)):
            z = zonk_json(v, cells)
            if z is None:
                return None
            out[k] = z
        else:
            out[k] = v
    return out


def strip(j):
    if isinstance(j, dict):
        return {k: strip(v) for k, v in j.items() if k not in ("name", "sr", "cell", "names")}
    if isinstance(j, list):
        return [strip(x) for x in j]
    return j


# =================================================================================================
# token level
ATOMS = ("Identifier", "IntegerLiteral", "Type", "Integer", "Boolean", "True", "False")


def token_struct(i, variant):
    return Struct("token::Token", {"source_range": Struct("error::SourceRange", {"start": 4 * i, "end": 4 * i + 2}), "variant": variant})


def fixed(kind):
    return Adt("token::Variant", kind, [])


def token_factory(H, n, first, last):
    import c08
    import parse_common as PC
    first_k = frozenset(k for k in K.KINDS if PC.KIND_TOKEN.get(k) in first)
    last_k = frozenset(k for k in K.KINDS if PC.KIND_TOKEN.get(k) in last)

    def make():
        ex, it = H.engine(solver_timeout_ms=120000)
        ex.fuel = 300000
        it.max_call_depth = 900

        def parse(tokens):
            return it.resolve(it.call("parser", "parse", [none(), Str(""), VecV(tokens), VecV()]))

        def body(ex):
            it.call_depth = 0

            def name_of(i):
                v = z3.Int("nm%d" % i)
                ex.add(z3.And(v >= 1, v < 3))
                return c08.SymName(v)
            st = K.SymTokens(n, name_of)
            for c in st.constraints(first_k, last_k):
                ex.add(c)
            info = lambda m: PC.case_of(ex, st, m)
            variants = lambda: [t.fields["variant"] for t in st.tokens]
            try:
                base = parse(st.tokens)
                # R6: the two names swapped everywhere
                swapped = []
                for i, t in enumerate(st.tokens):
                    v = K.TokVariant(st.nodes[i], c08.SymName(3 - st.names[i].id), st.literals[i])
                    swapped.append(token_struct(i, v))
                ren = parse(swapped)
                cmp_results(ex, base, ren, "R6.renaming", info, names=False)
                if base.variant != "Ok":
                    ex.count("rejected")
                    return
                ex.count("accepted")
                # R7a: parentheses around the whole program
                vs = variants()
                whole = [token_struct(0, fixed("LeftParen"))] + [token_struct(i + 1, v) for i, v in enumerate(vs)] + [token_struct(n + 1, fixed("RightParen"))]
                cmp_results(ex, base, parse(whole), "R7.parentheses-around-the-program", info, names=True)
                # R7b: parentheses around one atom in expression position (a binder is not an expression)
                sites = set()
                atom_sites(it, base.fields[0], sites)
                for k in range(n):
                    cur = ex.allowed(st.nodes[k])
                    if k not in sites or not cur <= frozenset(ATOMS):
                        continue
                    toks = []
                    j = 0
                    for i, v in enumerate(vs):
                        if i == k:
                            toks.append(token_struct(j, fixed("LeftParen")))
                            toks.append(token_struct(j + 1, v))
                            toks.append(token_struct(j + 2, fixed("RightParen")))
                            j += 3
                        else:
                            toks.append(token_struct(j, v))
                            j += 1
                    info_k = lambda m, k=k: dict(PC.case_of(ex, st, m), atom=k)
                    cmp_results(ex, base, parse(toks), "R7.parentheses-around-an-atom", info_k, names=True)
            except FuelExhausted:
                ex.count("fuel")
            except PanicEx as p:
                ex.check(False, "PANIC %s (%s.rs:%s)" % (p.msg, p.module, p.line), info=info)
        return ex, body, None
    return make


LEAF_TERMS = ("Variable", "IntegerLiteral", "Type", "Integer", "Boolean", "True", "False", "Unifier")


def atom_sites(it, t, out):
    """Token indices of the one-token leaf expressions of a parsed term (ranges are 4i..4i+2)."""
    t = it.deref(t)
    if isinstance(t, (list, tuple)):
        for x in t:
            atom_sites(it, x, out)
        return
    if not (isinstance(t, Struct) and t.name == "term::Term"):
        return
    v = it.resolve(t.fields["variant"])
    sr = it.resolve(t.fields["source_range"])
    if v.variant in LEAF_TERMS:
        if sr.variant == "Some":
            r = it.deref(sr.fields[0])
            s0, e0 = it.deref(r.fields["start"]), it.deref(r.fields["end"])
            if isinstance(s0, int) and isinstance(e0, int) and s0 % 4 == 0 and e0 == s0 + 2:
                out.add(s0 // 4)
        return
    for f in v.fields:
        atom_sites(it, f, out)


def cmp_results(ex, a, b, label, info, names):
    if a.variant != b.variant:
        ex.check(False, "%s.acceptance-changes (%s, rewritten %s)" % (label, a.variant, b.variant), info=info)
        return
    if a.variant != "Ok":
        ex.check(True, label + ".both-rejected")
        return
    same = T.term_eq(ex, a.fields[0], b.fields[0], T.EqOpts(names=names, source_ranges=False, cell_eq=lambda x, y: True))
    ex.check(same, "%s.term-changes" % label, info=info)


def confirm_token(H, label, case):
    """Native: the compiled tokenizer and parser on the spelled program and on its rewriting."""
    import parse_common as PC
    replay = H.get_replay()
    kinds, names, lits = case["kinds"], case["names"], case["literals"]
    text = PC.spell(kinds, names, lits)
    if PC.native_kinds(replay, text) != kinds:
        return False, "%r does not tokenize to the counterexample's tokens" % text
    if label.startswith("R6"):
        other = {"a": "b", "b": "a"}
        text2 = PC.spell(kinds, [other.get(x, x) for x in names], lits)
    elif "atom" in label:
        k = case["atom"]
        words = []
        for i, kd in enumerate(kinds):
            w = names[i] if kd == "Identifier" else (str(lits[i]) if kd == "IntegerLiteral" else K.SPELL[kd])
            words.append("( %s )" % w if i == k else w)
        text2 = " ".join(words).replace(" \n ", "\n")
    else:
        text2 = "( " + text + " )"
    a = replay.call({"op": "front", "source": text})
    b = replay.call({"op": "front", "source": text2})
    if "panic" in a or "panic" in b:
        return True, "panic on %r or %r" % (text, text2)
    oa, ob = a.get("stage") == "parsed", b.get("stage") == "parsed"
    if oa != ob:
        return True, "%r is %s but %r is %s" % (text, "accepted" if oa else "rejected", text2, "accepted" if ob else "rejected")
    if not oa:
        return False, "both rejected"
    ja = strip(T.canon(T.inline_cells(a["ok"], a["cells"])))
    jb = strip(T.canon(T.inline_cells(b["ok"], b["cells"])))
    if ja != jb:
        return True, "%r parses to %s but %r to %s" % (text, a["shown"], text2, b["shown"])
    return False, "%r and %r parse to the same term" % (text, text2)


def main():
    H = Harness(PID)
    quick = H.tier == "quick"
    if H.args.replay:
        with open(H.args.replay) as fh:
            rec = json.load(fh)
        fn = confirm_token if "kinds" in rec["case"] else confirm_term
        reproduced, detail = fn(H, rec["label"], rec["case"])
        print(("REPRODUCED: " if reproduced else "NOT REPRODUCED: ") + detail)
        return 1 if reproduced else 0
    only = os.environ.get("C19_PARTS", "TK")
    if os.environ.get("C19_ONLY_INNER"):
        only = "I"
    if "T" in only or "I" in only:
        c03.validate(H, 100 if quick else 400)
        budget = int(os.environ.get("C19_BUDGET", "0")) or (4 if quick else 5)
        for kinds in ((["R1", "R2"], ["R3", "R4"]) if "T" in only else ()):
            name = "rewrites %s of every program of <= %d nodes" % ("+".join(kinds), budget)
            t0 = time.time()
            m = parallel_explore(term_factory(H, budget, TC.WITH_HOLES, kinds, 60000), H.jobs)
            H.absorb_merged(name, m)
            H.log("%s: %d paths %s, %d obligations, %d discharged, %d workers, %.1fs" % (
                name, m.stats.get("paths", 0), m.counters, m.stats.get("obligations", 0), m.stats.get("discharged", 0), m.workers, time.time() - t0))
            c03.handle(H, m.violations, confirm_fn=confirm_term, classify_fn=lambda l, c: None)
            for mm in H.mismatches[:4]:
                H.log("   mismatch values: %s" % (mm["case"].get("values"),))
        if not os.environ.get("C19_INNER"):
            nm = "operand rewrites O3+O4 on every operator over literals and sums of literals"
            t0 = time.time()
            m = parallel_explore(operand_factory(H), min(H.jobs, 4))
            H.absorb_merged(nm, m)
            H.log("%s: %d paths %s, %d obligations, %d discharged, %d workers, %.1fs" % (
                nm, m.stats.get("paths", 0), m.counters, m.stats.get("obligations", 0), m.stats.get("discharged", 0), m.workers, time.time() - t0))
            c03.handle(H, m.violations, confirm_fn=confirm_term, classify_fn=lambda l, c: None)
            H.bounds["operand sites"] = "every arithmetic/comparison operator and negation over integer literals and sums of literals: an operand wrapped in `if true` (O4) or in an applied annotated identity (O3)"
        if not os.environ.get("C19_SKIP_INNER"):
            fams = inner_families()
            if quick and not os.environ.get("C19_INNER"):
                # quick: the one-definition groups (plain and applied), the two-definition group under a
                # binder, and the function group; thorough adds the applied two-definition group
                fams = [f for f in fams if "the same function applied" not in f[0]]
            for name, alpha, b, let_path, values in fams:
                kinds = ["I1e", "I1f", "I2", "I4"]
                if not let_path:
                    kinds = ["I5"]
                nm = "inner rewrites %s on: %s" % ("+".join(kinds), name)
                t0 = time.time()
                m = parallel_explore(inner_factory(H, b, alpha, kinds, let_path, 80000, values), H.jobs)
                H.absorb_merged(nm, m)
                H.log("%s: %d paths %s, %d obligations, %d discharged, %d workers, %.1fs" % (
                    nm, m.stats.get("paths", 0), m.counters, m.stats.get("obligations", 0), m.stats.get("discharged", 0), m.workers, time.time() - t0))
                c03.handle(H, m.violations, confirm_fn=confirm_term, classify_fn=lambda l, c: None)
            H.bounds["inner sites"] = "hole-free families (a group of 2 leaf definitions under a binder; the same applied to an argument; a group of two annotated functions): %s" % "; ".join("%s = %s" % kv for kv in INNER_LABEL.items())
        H.bounds["term level"] = "closed parser-shaped programs of at most %d nodes (holes allowed); rewrites R1 (unused definition), R2 (naming), R3 (applied annotated identity, accepted programs), R4 (if true) at the root" % budget
    if "K" in only:
        import parse_common as PC
        import c09
        PC.validate_parser(H, 20 if quick else 100)
        first, last = c09.first_last()
        nmax = int(os.environ.get("C19_N", "0")) or (3 if quick else 4)
        for n in range(1, nmax + 1):
            name = "renaming and parentheses on every sequence of %d tokens" % n
            t0 = time.time()
            m = parallel_explore(token_factory(H, n, first, last), H.jobs)
            H.absorb_merged(name, m)
            H.log("%s: %d paths %s, %d obligations, %d discharged, %d workers, %.1fs" % (
                name, m.stats.get("paths", 0), m.counters, m.stats.get("obligations", 0), m.stats.get("discharged", 0), m.workers, time.time() - t0))
            c03.handle(H, m.violations, confirm_fn=confirm_token, classify_fn=lambda l, c: None)
        H.bounds["token level"] = "every token sequence of 1..%d tokens (names symbolic over two names): R6 swapping the names, R7 parentheses around the program and around each single atom" % nmax
    H.bounds["outside"] = "inner sites other than the group of the families named above, the applied-identity rewrite at inner sites, sequences of rewrites, larger programs, the CLI layer"
    H.assumptions += ["programs satisfy the parser-output invariants (closed, hole shifts, accepted by the real check_definitions)",
                      "values are compared as terms up to names; evaluation that exhausts the fuel is not compared"]
    return H.finish()


if __name__ == "__main__":
    run_main(main)
