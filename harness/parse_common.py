"""Shared machinery for executing the real packrat parser on symbolic token sequences.

 * the grammar of /repo/grammar.y is read on every run; a memoised recogniser gives, for a sequence of
   *sets* of token kinds, a grammar sentence inside the product (if one exists) and, for a concrete
   sequence, its derivations (the grammar is unambiguous: C07 part C);
 * a derivation is turned into the syntax tree the parser must build before re-association (node kind,
   first and last token, group flag, binder token, children);
 * token sequences are spelled back into source text so that a counterexample is replayed through the
   compiled tokenizer and parser."""
import os
import sys

import z3

sys.path.insert(0, os.path.dirname(os.path.dirname(os.path.abspath(__file__))))

from gramsym import tokens as K
from gramsym.values import Adt, Struct, Str, VecV, Big, none, some, InternalError
import c07
import c09

TOKEN_KINDS = dict((g, [k]) for k, g in c09.GRAMMAR_TOKEN.items() if k != "Terminator")
TOKEN_KINDS["TERMINATOR"] = ["Semicolon", "LineBreak"]
KIND_TOKEN = {}
for g, ks in TOKEN_KINDS.items():
    for k in ks:
        KIND_TOKEN[k] = g


class Grammar:
    def __init__(self):
        tokens, rules = c07.read_grammar()
        self.tokens = set(tokens)
        self.rules = c07.inline_empty(rules)
        self.raw_rules = rules
        missing = [t for t in self.tokens if t not in TOKEN_KINDS]
        if missing:
            raise InternalError("grammar tokens without a token kind: %s" % missing)
        # shortest sentence length of each symbol (prunes the split enumeration)
        self.minlen = {n: 10 ** 6 for n in self.rules}
        changed = True
        while changed:
            changed = False
            for n, alts in self.rules.items():
                for a in alts:
                    l = sum(1 if s in self.tokens else self.minlen[s] for s in a)
                    if l < self.minlen[n]:
                        self.minlen[n] = l
                        changed = True

    def sym_min(self, s):
        return 1 if s in self.tokens else self.minlen[s]

    # ------------------------------------------------------------------------------------------
    def derivations(self, sets, start="term", cap=2):
        """Derivation trees of `start` over the whole sequence; sets[i] is the set of kinds allowed at
        position i (a terminal matches if one of its kinds is allowed).  At most `cap` trees."""
        n = len(sets)
        memo = {}

        def sym(s, i, j):
            if s in self.tokens:
                if j == i + 1 and any(k in sets[i] for k in TOKEN_KINDS[s]):
                    return [("tok", s, i)]
                return []
            return nt(s, i, j)

        def seq(rhs, k, i, j):
            # ways to derive tokens[i:j] from rhs[k:]
            if k == len(rhs):
                return [[]] if i == j else []
            rest_min = sum(self.sym_min(s) for s in rhs[k + 1:])
            out = []
            s = rhs[k]
            lo = i + self.sym_min(s)
            hi = j - rest_min
            if s in self.tokens:
                hi = min(hi, i + 1)
            for m in range(lo, hi + 1):
                heads = sym(s, i, m)
                if not heads:
                    continue
                tails = seq(rhs, k + 1, m, j)
                for h in heads:
                    for t in tails:
                        out.append([h] + t)
                        if len(out) >= cap:
                            return out
            return out

        def nt(name, i, j):
            key = (name, i, j)
            if key in memo:
                return memo[key]
            memo[key] = []   # no left recursion in this grammar beyond unit cycles
            out = []
            if j - i >= self.minlen[name]:
                for a in self.rules[name]:
                    for kids in seq(a, 0, i, j):
                        out.append(("nt", name, i, j, tuple(a), kids))
                        if len(out) >= cap:
                            break
                    if len(out) >= cap:
                        break
            memo[key] = out
            return out
        return nt(start, 0, n)

    def witness(self, sets):
        """A grammar sentence inside the product of the sets (kinds per position), or None.
        Prefers Semicolon for terminators (a semicolon is a terminator anywhere)."""
        trees = self.derivations(sets, cap=1)
        if not trees:
            return None
        out = [None] * len(sets)

        def walk(t):
            if t[0] == "tok":
                ks = [k for k in TOKEN_KINDS[t[1]] if k in sets[t[2]]]
                out[t[2]] = ks[0]
            else:
                for c in t[5]:
                    walk(c)
        walk(trees[0])
        return out


UNIT = {"term", "atom", "small_term", "medium_term", "large_term", "huge_term", "giant_term", "jumbo_term"}
BINARY = {"sum": "Sum", "difference": "Difference", "product": "Product", "quotient": "Quotient", "less_than": "LessThan",
          "less_than_or_equal_to": "LessThanOrEqualTo", "equal_to": "EqualTo", "greater_than": "GreaterThan",
          "greater_than_or_equal_to": "GreaterThanOrEqualTo", "application": "Application"}
LEAF = {"type": "Type", "integer": "Integer", "boolean": "Boolean", "true": "True", "false": "False"}


class Node:
    """Expected syntax-tree node: kind, first/last token index, group flag, binder token index,
    implicit flag, literal token index, children (None = absent optional child)."""

    def __init__(self, kind, i, j, kids=(), binder=None, implicit=None, tok=None):
        self.kind = kind
        self.i = i
        self.j = j          # index of the last token
        self.kids = list(kids)
        self.group = False
        self.binder = binder
        self.implicit = implicit
        self.tok = tok

    def show(self):
        s = self.kind
        if self.kids:
            s += "(" + ", ".join("-" if k is None else k.show() for k in self.kids) + ")"
        s += "[%d..%d]" % (self.i, self.j)
        return "(" + s + ")" if self.group else s


def expected_tree(t):
    """Syntax tree (before re-association) of a derivation."""
    assert t[0] == "nt"
    _, name, i, j, rhs, kids = t
    sub = [k for k in kids if k[0] == "nt"]
    last = j - 1
    if name in UNIT:
        return expected_tree(sub[0])
    if name in LEAF:
        return Node(LEAF[name], i, last)
    if name == "variable":
        return Node("Variable", i, last, tok=i)
    if name == "integer_literal":
        return Node("IntegerLiteral", i, last, tok=i)
    if name == "group":
        inner = expected_tree(sub[0])
        inner.i, inner.j = i, last
        inner.group = True
        return inner
    if name in BINARY:
        return Node(BINARY[name], i, last, [expected_tree(sub[0]), expected_tree(sub[1])])
    if name == "negation":
        return Node("Negation", i, last, [expected_tree(sub[0])])
    if name == "if":
        return Node("If", i, last, [expected_tree(x) for x in sub])
    if name == "lambda":
        return Node("Lambda", i, last, [None, expected_tree(sub[0])], binder=i, implicit=False)
    if name == "lambda_implicit":
        return Node("Lambda", i, last, [None, expected_tree(sub[0])], binder=i + 1, implicit=True)
    if name in ("annotated_lambda", "annotated_lambda_implicit"):
        return Node("Lambda", i, last, [expected_tree(sub[0]), expected_tree(sub[1])], binder=i + 1, implicit=name.endswith("implicit"))
    if name in ("pi", "pi_implicit"):
        return Node("Pi", i, last, [expected_tree(sub[0]), expected_tree(sub[1])], binder=i + 1, implicit=name.endswith("implicit"))
    if name == "non_dependent_pi":
        return Node("Pi", i, last, [expected_tree(sub[0]), expected_tree(sub[1])], binder=None, implicit=False)
    if name == "let":
        # let: IDENTIFIER [let_annotation] EQUALS term TERMINATOR term
        ann = None
        rest = sub
        if sub and sub[0][1] == "let_annotation":
            ann = expected_tree([k for k in sub[0][5] if k[0] == "nt"][0])
            rest = sub[1:]
        return Node("Let", i, last, [ann, expected_tree(rest[0]), expected_tree(rest[1])], binder=i)
    raise InternalError("no syntax-tree shape for grammar rule %s" % name)


# ---------------------------------------------------------------------------------------------
def real_tree(it, st, term, problems, path="root"):
    """Read the parser's term (interpreter value) into a Node; binder/identifier/literal payloads are
    mapped back to the token they came from by object identity."""
    t = it.deref(term)
    rng = it.deref(t.fields["source_range"])
    s, e = it.deref(rng.fields["start"]), it.deref(rng.fields["end"])
    if not (isinstance(s, int) and isinstance(e, int)) or s % 4 != 0 or e % 4 != 2:
        problems.append("%s: range %s..%s is not a span of whole tokens" % (path, s, e))
        i, j = -1, -1
    else:
        i, j = s // 4, (e - 2) // 4
    v = it.resolve(t.fields["variant"])
    kind = v.variant
    f = v.fields

    def tok_of(payload, what):
        p = it.deref(payload)
        for k in range(st.n):
            if p is st.names[k] or p is st.literals[k]:
                return k
        problems.append("%s: %s is not the payload of any token" % (path, what))
        return None

    def binder(sv, expect_placeholder=False):
        sv = it.deref(sv)
        nm = it.deref(sv.fields["name"])
        r = it.deref(sv.fields["source_range"])
        if isinstance(nm, str) or (isinstance(nm, Str) and nm.s is not None):
            return ("placeholder", (it.deref(r.fields["start"]), it.deref(r.fields["end"])))
        k = tok_of(nm, "binder name")
        return (k, (it.deref(r.fields["start"]), it.deref(r.fields["end"])))

    def sub(x, name):
        return real_tree(it, st, x, problems, path + "." + name)

    n = None
    if kind in ("Type", "Integer", "Boolean", "True", "False"):
        n = Node(kind, i, j)
    elif kind == "Variable":
        n = Node(kind, i, j, tok=tok_of(f[0], "identifier"))
    elif kind == "IntegerLiteral":
        n = Node(kind, i, j, tok=tok_of(f[0], "literal"))
    elif kind == "Negation":
        n = Node(kind, i, j, [sub(f[0], "0")])
    elif kind == "If":
        n = Node(kind, i, j, [sub(f[0], "0"), sub(f[1], "1"), sub(f[2], "2")])
    elif kind in ("Lambda", "Pi"):
        b = binder(f[0])
        dom = it.resolve(f[2])
        if kind == "Lambda":
            d = None if dom.variant == "None" else sub(dom.fields[0], "domain")
        else:
            d = sub(f[2], "domain")
        n = Node(kind, i, j, [d, sub(f[3], "body")], binder=b[0], implicit=it.deref(f[1]))
        n.binder_range = b[1]
    elif kind == "Let":
        b = binder(f[0])
        ann = it.resolve(f[1])
        a = None if ann.variant == "None" else sub(ann.fields[0], "annotation")
        n = Node(kind, i, j, [a, sub(f[2], "definition"), sub(f[3], "body")], binder=b[0])
        n.binder_range = b[1]
    elif kind == "ParseError":
        n = Node(kind, i, j)
    else:
        n = Node(kind, i, j, [sub(f[0], "0"), sub(f[1], "1")])
    n.group = bool(it.deref(t.fields["group"]))
    return n


def compare_trees(got, want, st, out, ranges, path="root"):
    """Structural differences (out) and binder-range differences (ranges)."""
    if got is None or want is None:
        if got is not want:
            out.append("%s: %s vs expected %s" % (path, "absent" if got is None else got.kind, "absent" if want is None else want.kind))
        return
    if got.kind != want.kind:
        out.append("%s: %s where the grammar derives %s" % (path, got.kind, want.kind))
        return
    if (got.i, got.j) != (want.i, want.j):
        out.append("%s: %s spans tokens %d..%d, its derivation %d..%d" % (path, got.kind, got.i, got.j, want.i, want.j))
    if got.group != want.group:
        out.append("%s: group flag %s, expected %s" % (path, got.group, want.group))
    if want.tok is not None and got.tok != want.tok:
        out.append("%s: payload of token %s, expected token %s" % (path, got.tok, want.tok))
    if want.implicit is not None and got.implicit != want.implicit:
        out.append("%s: implicit=%s, expected %s" % (path, got.implicit, want.implicit))
    if want.kind in ("Lambda", "Pi", "Let"):
        if want.binder is None:
            if got.binder != "placeholder":
                out.append("%s: binder %s where a placeholder was expected" % (path, got.binder))
        else:
            if got.binder != want.binder:
                out.append("%s: binder is token %s, expected token %s" % (path, got.binder, want.binder))
            elif tuple(got.binder_range) != st.range_of(want.binder):
                ranges.append("%s: the binder's range is %s, the identifier token %d is at %s" % (path, tuple(got.binder_range), want.binder, st.range_of(want.binder)))
    if len(got.kids) != len(want.kids):
        out.append("%s: %d children, expected %d" % (path, len(got.kids), len(want.kids)))
        return
    for k, (a, b) in enumerate(zip(got.kids, want.kids)):
        compare_trees(a, b, st, out, ranges, "%s.%d" % (path, k))


# ---------------------------------------------------------------------------------------------
def spell(kinds, names=None, literals=None):
    """Source text whose tokens are the given kinds (tokens separated by blanks)."""
    out = []
    for i, k in enumerate(kinds):
        if k == "Identifier":
            out.append(names[i] if names else "x%d" % i)
        elif k == "IntegerLiteral":
            out.append(str(literals[i] if literals else i))
        else:
            out.append(K.SPELL[k])
    s = ""
    for i, w in enumerate(out):
        if i > 0 and w != "\n" and out[i - 1] != "\n":
            s += " "
        s += w
    return s


def native_kinds(replay, text):
    """Token kinds the compiled tokenizer produces for a text (None if it rejects the text)."""
    r = replay.call({"op": "tokenize", "source": text})
    if "ok" not in r:
        return None
    out = []
    for t in r["ok"]:
        k = t["v"]
        if k == "Terminator":
            k = t["arg"] if t["arg"] in ("LineBreak", "Semicolon") else "Semicolon"
        out.append(k)
    return out


def case_of(ex, st, model):
    from gramsym.terms import mval
    kinds = st.kinds(ex, model)
    names = []
    lits = []
    for i in range(st.n):
        nm = st.names[i]
        names.append(nm.concrete(model) if hasattr(nm, "concrete") else "x%d" % i)
        v = st.literals[i].v
        lits.append(mval(model, v) if not isinstance(v, int) else v)
    return {"kinds": kinds, "names": names, "literals": lits, "text": spell(kinds, names, lits)}


# ---------------------------------------------------------------------------------------------
NAMES = None


def parser_factory(H, n, obligations, first, last, alphabet=None, fuel=200000):
    """Exploration of parser::parse on every sequence of n tokens (kinds symbolic; identifier names
    symbolic over two names; literal values symbolic).  obligations(ex, it, st, out) is called at the
    end of each path with out = {"result" | "panic" | "fuel", "raw": (term, next) of the outermost
    parse_term call}."""
    import c08
    first_k = frozenset(k for k in K.KINDS if KIND_TOKEN.get(k) in first)
    last_k = frozenset(k for k in K.KINDS if KIND_TOKEN.get(k) in last)

    def make():
        from gramsym.explorer import FuelExhausted
        from gramsym.interp import PanicEx
        ex, it = H.engine(solver_timeout_ms=120000)
        ex.fuel = fuel
        it.max_call_depth = 900
        mod = it.modules["parser"]
        fn = mod.fns["parse_term"]
        rec = {}

        def stub(it_, args):
            rec["depth"] = rec.get("depth", 0) + 1
            try:
                r = it.call_fn_raw(mod, fn, args)
            finally:
                rec["depth"] -= 1
            if rec["depth"] == 0:
                rec["raw"] = r
            return r
        it.stubs["parse_term"] = stub

        def body(ex):
            it.call_depth = 0
            rec.clear()

            def name_of(i):
                v = z3.Int("nm%d" % i)
                ex.add(z3.And(v >= 1, v < 3))
                return c08.SymName(v)
            st = K.SymTokens(n, name_of)
            if alphabet is not None:
                for nd in st.nodes:
                    nd.allowed0 = frozenset(alphabet)
            for c in st.constraints(first_k, last_k):
                ex.add(c)
            out = {}
            try:
                out["result"] = it.resolve(it.call("parser", "parse", [none(), Str(""), VecV(st.tokens), VecV()]))
            except PanicEx as p:
                out["panic"] = p
            except FuelExhausted:
                out["fuel"] = True
            raw = rec.get("raw")
            if raw is not None:
                raw = it.deref(raw)
                out["raw"] = (raw[0], it.deref(raw[1]))
            obligations(ex, it, st, out)
        return ex, body, None
    return make


# ---------------------------------------------------------------------------------------------
def random_sentence(g, rnd, sym="term", depth=0):
    """A random sentence (list of kinds) of the grammar, biased to short derivations."""
    if sym in g.tokens:
        return [rnd.choice(TOKEN_KINDS[sym])]
    alts = g.rules[sym]
    if depth > 14 or (depth > 7 and rnd.random() < 0.6):
        alts = sorted(alts, key=lambda a: sum(g.sym_min(s) for s in a))[:1]
    a = rnd.choice(alts)
    out = []
    for s in a:
        out += random_sentence(g, rnd, s, depth + 1)
    return out


def concrete_tokens(kinds, names, lits):
    import c08
    toks = []
    for i, k in enumerate(kinds):
        rng = Struct("error::SourceRange", {"start": 4 * i, "end": 4 * i + 2})
        if k == "Identifier":
            v = Adt("token::Variant", "Identifier", [c08.SymName(c08.NAMES.index(names[i]))])
        elif k == "IntegerLiteral":
            v = Adt("token::Variant", "IntegerLiteral", [Big(lits[i])])
        elif k in ("LineBreak", "Semicolon"):
            v = Adt("token::Variant", "Terminator", [Adt("token::TerminatorType", k, [])])
        else:
            v = Adt("token::Variant", k, [])
        toks.append(Struct("token::Token", {"source_range": rng, "variant": v}))
    return toks


def validate_parser(H, n):
    """Encoder validation: concrete token sequences (grammar sentences and mutations of them)
    through the interpreter's execution of parser::parse and through the compiled parser."""
    if H.worker:
        return
    import random
    import c08
    from gramsym.explorer import Frame
    from gramsym.interp import PanicEx
    from gramsym import terms as T
    rnd = random.Random(H.seed * 77 + 3)
    g = Grammar()
    replay = H.get_replay()
    bad = 0
    done = 0
    tries = 0
    while done < n and tries < n * 40:
        tries += 1
        ks = random_sentence(g, rnd)
        if len(ks) > 14:
            continue
        mode = rnd.randrange(4)
        if mode == 1 and len(ks) > 1:
            del ks[rnd.randrange(len(ks))]
        elif mode == 2:
            ks.insert(rnd.randrange(len(ks) + 1), rnd.choice(K.KINDS))
        elif mode == 3:
            ks[rnd.randrange(len(ks))] = rnd.choice(K.KINDS)
        names = [rnd.choice(c08.NAMES[1:]) for _ in ks]
        lits = [rnd.randrange(0, 50) for _ in ks]
        text = spell(ks, names, lits)
        if native_kinds(replay, text) != ks:
            continue
        done += 1
        ex, it = H.engine()
        ex.frames.append(Frame(ex._new_solver()))
        ex.fuel_left = 10 ** 7
        ex.eval_left = 10 ** 9
        it.max_call_depth = 2000
        nat = replay.call({"op": "front", "source": text})
        try:
            r = it.resolve(it.call("parser", "parse", [none(), Str(""), VecV(concrete_tokens(ks, names, lits)), VecV()]))
            if r.variant == "Err":
                mine = ("err", len(r.fields[0]))
            else:
                c = T.Concretizer(ex, c08.empty_model())
                mine = ("ok", T.canon(T.inline_cells(c08.strip_names(c.term(r.fields[0])), c.cells_table())))
        except PanicEx as p:
            mine = ("panic", p.msg)
        if "panic" in nat:
            theirs = ("panic", nat["panic"])
        elif nat.get("stage") == "parse":
            theirs = ("err", len(nat["err"]))
        elif nat.get("stage") == "parsed":
            theirs = ("ok", strip_ranges(T.canon(T.inline_cells(c08.strip_names(nat["ok"]), nat["cells"]))))
            if mine[0] == "ok":
                mine = ("ok", strip_ranges(mine[1]))
        else:
            theirs = ("other", str(nat)[:100])
        if mine[0] != theirs[0] or (mine[0] == "err" and mine[1] != theirs[1]) or (mine[0] == "ok" and mine[1] != theirs[1]):
            bad += 1
            H.mismatches.append({"label": "validate.parse", "case": {"text": text}, "detail": "interpreter %s, compiled %s on %r" % (str(mine)[:300], str(theirs)[:300], text)})
        H.validated += 1
        H.functions |= ex.functions_executed
        ex.frames.pop()
    for mm in H.mismatches[:3]:
        H.log("  " + str(mm)[:700])
    H.log("encoder validation: %d concrete token sequences (grammar sentences and mutations, up to 14 tokens) through interpreter and compiled parser, %d disagreements" % (done, bad))


def strip_ranges(j):
    if isinstance(j, dict):
        return {k: strip_ranges(v) for k, v in j.items() if k != "sr"}
    if isinstance(j, list):
        return [strip_ranges(x) for x in j]
    return j


# ---------------------------------------------------------------------------------------------
def product_size(sets):
    p = 1
    for s in sets:
        p *= len(s)
    return p


def refine(ex, st, cap):
    """Fork until the product of the tokens' allowed sets is at most cap."""
    while True:
        sets = [ex.allowed(nd) for nd in st.nodes]
        if product_size(sets) <= cap:
            return sets
        k = max(range(st.n), key=lambda i: len(sets[i]))
        ex.decide_ctor(st.nodes[k], frozenset([sorted(sets[k])[0]]))


def tags_are(st, seq):
    return z3.And(*[nd.tag == K.CODE[k] for nd, k in zip(st.nodes, seq)]) if seq else True


def conformance_obligations(g, want_b3=True, want_b12=True):
    """B1: the packrat stage accepts exactly the sentences of grammar.y; B2: the tree it builds is the
    tree of the (unique) derivation; B3: a binder's range is the range of its identifier token."""
    import itertools

    def ob(ex, it, st, out):
        if "panic" in out or "fuel" in out or out.get("raw") is None:
            ex.count("not-finished")
            return
        term, nxt = out["raw"]
        factories = VecV()
        it.call("parser", "collect_error_factories", [factories, term])
        accepted = len(factories) == 0 and nxt == st.n

        def info_for(seq):
            def info(m):
                c = case_of(ex, st, m)
                return c
            return info
        if not accepted:
            ex.count("syntax-rejected")
            if not want_b12:
                return
            sets = [ex.allowed(nd) for nd in st.nodes]
            trees = g.derivations(sets, cap=4)
            seen = set()
            for t in trees:
                w = [None] * st.n

                def walk(x):
                    if x[0] == "tok":
                        ks = [k for k in TOKEN_KINDS[x[1]] if k in sets[x[2]]]
                        w[x[2]] = ks[0]
                    else:
                        for c in x[5]:
                            walk(c)
                walk(t)
                if tuple(w) in seen:
                    continue
                seen.add(tuple(w))
                ex.check(z3.Not(tags_are(st, w)), "B1.rejects-a-sentence-of-the-grammar", info=info_for(w))
            if not trees:
                ex.check(True, "B1.rejected-and-not-in-the-grammar")
            return
        ex.count("syntax-accepted")
        sets = refine(ex, st, 600)
        problems = []
        got = real_tree(it, st, term, problems)
        for seq in itertools.product(*[sorted(s) for s in sets]):
            d = g.derivations([{k} for k in seq], cap=2)
            if not d:
                if want_b12:
                    ex.check(z3.Not(tags_are(st, seq)), "B1.accepts-a-string-outside-the-grammar", info=info_for(seq))
                continue
            if len(d) > 1:
                ex.count("ambiguous-sentence")
            want = expected_tree(d[0])
            diffs = list(problems)
            ranges = []
            compare_trees(got, want, st, diffs, ranges)
            if want_b12:
                if diffs:
                    ex.check(z3.Not(tags_are(st, seq)), "B2.tree-differs-from-the-derivation: %s" % diffs[0], info=info_for(seq))
                else:
                    ex.check(True, "B2.tree-is-the-derivation")
            if want_b3:
                if ranges:
                    ex.check(z3.Not(tags_are(st, seq)), "B3.binder-range-is-not-its-identifier: %s" % ranges[0], info=info_for(seq))
                else:
                    ex.check(True, "B3.binder-ranges")
    return ob


def confirm_conformance(H, label, case):
    """Native: run the compiled tokenizer + packrat parser on the spelled text."""
    replay = H.get_replay()
    text = case["text"]
    kinds = native_kinds(replay, text)
    if kinds != case["kinds"]:
        return False, "the text %r tokenizes to %s, not to %s" % (text, kinds, case["kinds"])
    g = Grammar()
    d = g.derivations([{k} for k in kinds], cap=2)
    toks = replay.call({"op": "tokenize", "source": text})["ok"]
    r = replay.call({"op": "packrat", "tokens": toks})
    if "panic" in r:
        return True, "the packrat parser panics on %r: %s" % (text, r["panic"])
    accepted = r["nerrors"] == 0 and r["next"] == r["len"]
    if label.startswith("B1"):
        return (accepted != bool(d)), "%r (%s): the compiled packrat parser %s it; grammar.y %s it" % (
            text, " ".join(kinds), "accepts" if accepted else "rejects", "derives" if d else "does not derive")
    if not accepted or not d:
        return False, "%r: accepted=%s, derivations=%d" % (text, accepted, len(d))
    want = expected_tree(d[0])
    diffs = []
    native_compare(r["tree"], want, toks, diffs, label.startswith("B3"))
    return bool(diffs), "%r: %s" % (text, diffs[0] if diffs else "the compiled parser's tree is the derivation %s" % want.show())


def native_compare(tj, want, toks, out, ranges_only, path="root"):
    """Compare the compiled parser's raw tree (JSON from gram-replay's packrat op) with a Node."""
    if tj is None or want is None:
        if (tj is None) != (want is None):
            out.append("%s: presence differs" % path)
        return
    starts = {t["sr"][0]: i for i, t in enumerate(toks)}
    ends = {t["sr"][1]: i for i, t in enumerate(toks)}
    i, j = starts.get(tj["sr"][0]), ends.get(tj["sr"][1])
    if not ranges_only:
        if tj["v"] != want.kind:
            out.append("%s: %s where the grammar derives %s" % (path, tj["v"], want.kind))
            return
        if (i, j) != (want.i, want.j):
            out.append("%s: %s spans tokens %s..%s, its derivation %d..%d" % (path, tj["v"], i, j, want.i, want.j))
        if bool(tj.get("group")) != want.group:
            out.append("%s: group flag %s, expected %s" % (path, tj.get("group"), want.group))
    if want.kind in ("Lambda", "Pi", "Let") and want.binder is not None:
        b = (tj.get("var") or {}).get("sr")
        wt = toks[want.binder]["sr"]
        if b is not None and list(b) != list(wt):
            out.append("%s: the binder's range is %s, the identifier `%s` is at %s" % (path, list(b), toks[want.binder].get("arg"), list(wt)))
    if tj["v"] == "Lambda":
        kids = [tj["domain"], tj["body"]]
    elif tj["v"] == "Pi":
        kids = [tj["domain"], tj["codomain"]]
    elif tj["v"] == "Let":
        kids = [tj["ann"], tj["def"], tj["body"]]
    else:
        kids = tj.get("kids", [])
    if len(kids) != len(want.kids):
        if not ranges_only:
            out.append("%s: %d children, expected %d" % (path, len(kids), len(want.kids)))
        return
    for k, (a, b) in enumerate(zip(kids, want.kids)):
        native_compare(a, b, toks, out, ranges_only, "%s.%d" % (path, k))
