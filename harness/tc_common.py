"""Shared pipeline harness for the type-checker properties (C01, C03, C04, C05, C18): symbolic
programs (parser-shaped terms within a node budget, with or without holes), the real
type_check / evaluate executed by path forking, and the reference checker as oracle."""
import json
import os
import sys
import time

import z3

sys.path.insert(0, os.path.dirname(os.path.dirname(os.path.abspath(__file__))))

from gramsym import inputs as I, terms as T
from gramsym.values import (Adt, Struct, TupleV, VecV, Str, Union, none, some, z_and, z_or, z_not, z_eq, is_sym,
                            InternalError, Opaque)
from gramsym.explorer import PathAbort, FuelExhausted
from gramsym.interp import PanicEx
from gramsym.refcheck import RefChecker, Reject, RefUnknown, Entry, context_from
from gramsym.inputs import InputTerm, CODE, let_n, ARITY

HOLE_FREE = [c for c in I.ALL_HOLE_FREE if c not in ("Let3",)]
WITH_HOLES = HOLE_FREE + ["Unifier"]


class ProgramSpace(I.InputSpace):
    """Terms shaped like parser output: closed (scope), holes carry the shift the parser gives them,
    the body of a group is never itself a group."""

    def __init__(self, prefix, budget, alphabet, scope=0, fully_annotated=False):
        I.InputSpace.__init__(self, prefix, budget, alphabet, source_ranges=True, scope=scope)
        self.fully_annotated = fully_annotated

    def extra_constraints(self, node, ex):
        cs = []
        p = node.parent
        want_shift = 0
        if p is not None:
            cur = ex.allowed(p)
            lets = [c for c in cur if c.startswith("Let")]
            if lets and len(cur) == len(lets):
                ns = set(let_n(c) for c in lets)
                if len(ns) == 1:
                    n = ns.pop()
                    if node.slot == 2 * n:
                        cs.append(z3.And(*[node.tag != CODE[c] for c in I.LETS]))
                    elif node.slot % 2 == 0 and node.slot < 2 * n:
                        want_shift = n - node.slot // 2
        cs.append(z3.Or(node.tag != CODE["Unifier"], node.idx == want_shift))
        return cs


def patch_domain_constraints():
    """Let ProgramSpace add its constraints when a node is first touched."""
    orig = InputTerm.domain_constraints

    def dc(self, ex=None):
        cs = orig(self, ex)
        if ex is not None and hasattr(self.space, "extra_constraints"):
            cs += self.space.extra_constraints(self, ex)
        return cs
    InputTerm.domain_constraints = dc


patch_domain_constraints()


def concretize_ctor(ex, node):
    cur = ex.allowed(node)
    if len(cur) == 1:
        return next(iter(cur))
    for ct in sorted(cur, key=I.CTORS.index):
        if ex.decide_ctor(node, frozenset([ct])):
            return ct
    raise PathAbort()


def call_type_check(it, term, tctx=None, dctx=None):
    tctx = tctx if tctx is not None else VecV()
    dctx = dctx if dctx is not None else VecV()
    r = it.call("type_checker", "type_check", [none(), Str(""), term, tctx, dctx])
    return it.resolve(r), tctx, dctx


def input_case(ex, model, root):
    """Concrete input (term + initial cells) of the current path under a model."""
    conc = T.Concretizer(ex, model, initial_cells=True)
    tj = conc.term(root)
    return {"t": tj, "cells": conc.cells_table()}


def native_type_check(replay, case, run=False):
    return replay.call({"op": "type_check", "term": case["t"], "cells": case.get("cells", {}),
                        "typing_ctx": case.get("typing_ctx", []), "defs_ctx": case.get("defs_ctx", []), "source": "", "run": run})


def ref_judge(cx, term, ctx=None, fuel=4000):
    """Run the reference checker on a concrete term value: ('ok', type) | ('reject', why) | ('unknown', why)."""
    rc = RefChecker(cx, None, fuel=fuel)
    try:
        ty = rc.infer(term, ctx or [])
        return ("ok", ty, rc)
    except Reject as r:
        return ("reject", r.why, rc, r.roles)
    except RefUnknown as u:
        return ("unknown", u.why, rc)



# ---------------------------------------------------------------------------------------------
# "Interplay" families: binders, definition groups and type aliases nested in each other -- the
# shapes at which context offsets, group-type reconstruction and alias unfolding matter and which a
# plain node budget of 4-5 nodes does not reach (witnesses of S-C05-02, S-C03-02, S-C19-01,
# S-C18-02, S-C04-02 have 6-12 nodes).  Alphabets are per position; indices and literals symbolic.
def interplay_families(holes, which="ABCD"):
    """[(name, alphabet function, node budget)].  holes=False: fully annotated programs."""
    ann = ["Type", "Integer"] + (["Unifier"] if holes else ["Variable"])
    dfn = ["Type", "Integer", "Variable", "IntegerLiteral"]
    out = []

    def group_then_binder(n):
        # u : type = type; v = int; (a : u) -> a
        def alpha(node):
            d, s = node.depth, node.slot
            if d == 1:
                return ["Let%d" % n]
            if d == 2:
                if s == 2 * n:
                    return ["Pi", "Lambda"]
                return ann if s % 2 == 0 else dfn
            return ["Variable", "Integer"] if s == 0 else ["Variable", "Integer", "Type"]
        return alpha
    if "A" in which:
        out.append(("aliases then a binder: a group of 1 leaf definition whose body is a function (type)", group_then_binder(1), 7))
    if "B" in which:
        out.append(("aliases then a binder: a group of 2 leaf definitions whose body is a function (type)", group_then_binder(2), 9))

    def aliases_then_function_type(node):
        # v = int; t = type; (d : v) => d -> int
        d, s = node.depth, node.slot
        if d == 1:
            return ["Let2"]
        if d == 2:
            if s == 4:
                return ["Lambda"]
            return (["Unifier"] if holes else ["Type"]) if s % 2 == 0 else ["Type", "Integer"]
        if d == 3:
            return ["Variable"] if s == 0 else ["Pi"]
        return ["Variable"] if s == 0 else ["Variable", "Integer"]
    if "F" in which:
        out.append(("two type aliases, then a function whose body is a function type over its parameter", aliases_then_function_type, 11))

    def group_under_binder(base, n=2):
        # (a : type) => (t = a; u = 5; (x : t) => x)        [base = depth of the outer lambda]
        def alpha(node):
            d, s = node.depth - base, node.slot
            if d == 1:
                return ["Lambda"]
            if d == 2:
                return ["Type", "Integer"] if s == 0 else ["Let%d" % n]
            if d == 3:
                if s == 2 * n:
                    return ["Lambda", "Variable"]
                return (["Type", "Integer"] + (["Unifier"] if holes else [])) if s % 2 == 0 else ["Variable", "IntegerLiteral", "Integer"]
            return ["Variable", "Integer"] if s == 0 else ["Variable"]
        return alpha
    if "C" in which:
        out.append(("a group of 2 leaf definitions under a binder, its body a function or a member", group_under_binder(0), 11))
    if "D" in which:
        inner = group_under_binder(1)

        def applied(node):
            if node.depth == 1:
                return ["Application"]
            if node.depth == 2 and node.slot == 1:
                return ["Integer", "Type", "IntegerLiteral"]
            return inner(node)
        out.append(("the same function applied to a leaf argument", applied, 13))

    if "G" in which:
        out.append(("a group of 1 leaf definition under a binder, its body a function or a member", group_under_binder(0, 1), 9))
    if "H" in which:
        inner1 = group_under_binder(1, 1)

        def applied(node):
            if node.depth == 1:
                return ["Application"]
            if node.depth == 2 and node.slot == 1:
                return ["Integer", "Type", "IntegerLiteral"]
            return inner1(node)
        out.append(("the same one-definition function applied to a leaf argument", applied, 11))
    if "I" in which:
        inner2 = group_under_binder(2, 1)

        def applied_twice(node):
            # ((a : type) => (t = a; (x : t) => x)) int 3
            if node.depth == 1:
                return ["Application"]
            if node.depth == 2:
                return ["Application"] if node.slot == 0 else ["IntegerLiteral", "Integer", "Variable"]
            if node.depth == 3 and node.slot == 1 and node.parent.slot == 0 and node.parent.depth == 2:
                return ["Integer", "Type", "IntegerLiteral"]
            return inner2(node)
        out.append(("the same one-definition function applied to two leaf arguments", applied_twice, 13))

    def type_function_with_group(node):
        # (t : type) => (x : t) => (y : ((a : type) => (r : type = int; a)) t = x; y)
        # a type-level function whose body is a group is applied to a BOUND variable inside an
        # annotation: beta reduction substitutes an open term into a group body (S-C05-03, S-C04-03)
        path = []
        n = node
        while n.parent is not None:
            path.append(n.slot)
            n = n.parent
        path = tuple(reversed(path))
        table = {
            (): ["Lambda"], (0,): ["Type"], (1,): ["Lambda"], (1, 0): ["Variable"], (1, 1): ["Let1"],
            (1, 1, 0): ["Application"], (1, 1, 1): ["Variable"], (1, 1, 2): ["Variable"],
            (1, 1, 0, 0): ["Lambda"], (1, 1, 0, 1): ["Variable", "Integer"],
            (1, 1, 0, 0, 0): ["Type"], (1, 1, 0, 0, 1): ["Let1", "Variable"],
            (1, 1, 0, 0, 1, 0): ["Type"], (1, 1, 0, 0, 1, 1): ["Integer", "Variable"], (1, 1, 0, 0, 1, 2): ["Variable"],
        }
        return table.get(path, ["Variable"])
    if "J" in which:
        out.append(("a type-level function whose body is a group, applied to a bound variable inside an annotation", type_function_with_group, 17))

    def group_in_annotation(node):
        # c : (a = int; b = bool; a) = true; c
        d, s = node.depth, node.slot
        if d == 1:
            return ["Let1"]
        if d == 2:
            return [["Let2"], ["True", "IntegerLiteral", "Integer", "Variable"], ["Variable"]][s]
        if s == 4:
            return ["Variable", "Integer"]
        return (["Type"] + (["Unifier"] if holes else [])) if s % 2 == 0 else ["Integer", "Boolean", "Variable", "Type"]
    if "E" in which:
        out.append(("a group of 2 type aliases inside the annotation of a definition", group_in_annotation, 10))
    return out
