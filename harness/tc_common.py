"""Shared pipeline harness for the type-checker properties (C01, C03, C04, C05, C18): symbolic
programs (parser-shaped terms within a node budget, with or without holes), the real
type_check / evaluate executed by path forking, and the reference checker as oracle."""
import json
import os
import sys
import time

import z3

sys.path.insert(0, os.path.dirname(os.path.dirname(os.path.abspath(__file__))))

from gramsym import inputs as I, terms as T
from gramsym.values import (Adt, Struct, TupleV, VecV, Str, Union, none, some, z_and, z_or, z_not, z_eq, is_sym,
                            InternalError, Opaque)
from gramsym.explorer import PathAbort, FuelExhausted
from gramsym.interp import PanicEx
from gramsym.refcheck import RefChecker, Reject, RefUnknown, Entry, context_from
from gramsym.inputs import InputTerm, CODE, let_n, ARITY

HOLE_FREE = [c for c in I.ALL_HOLE_FREE if c not in ("Let3",)]
WITH_HOLES = HOLE_FREE + ["Unifier"]


class ProgramSpace(I.InputSpace):
    """Terms shaped like parser output: closed (scope), holes carry the shift the parser gives them,
    the body of a group is never itself a group."""

    def __init__(self, prefix, budget, alphabet, scope=0, fully_annotated=False):
        I.InputSpace.__init__(self, prefix, budget, alphabet, source_ranges=True, scope=scope)
        self.fully_annotated = fully_annotated

    def extra_constraints(self, node, ex):
        cs = []
        p = node.parent
        want_shift = 0
        if p is not None:
            cur = ex.allowed(p)
            lets = [c for c in cur if c.startswith("Let")]
            if lets and len(cur) == len(lets):
                ns = set(let_n(c) for c in lets)
                if len(ns) == 1:
                    n = ns.pop()
                    if node.slot == 2 * n:
                        cs.append(z3.And(*[node.tag != CODE[c] for c in I.LETS]))
                    elif node.slot % 2 == 0 and node.slot < 2 * n:
                        want_shift = n - node.slot // 2
        cs.append(z3.Or(node.tag != CODE["Unifier"], node.idx == want_shift))
        return cs


def patch_domain_constraints():
    """Let ProgramSpace add its constraints when a node is first touched."""
    orig = InputTerm.domain_constraints

    def dc(self, ex=None):
        cs = orig(self, ex)
        if ex is not None and hasattr(self.space, "extra_constraints"):
            cs += self.space.extra_constraints(self, ex)
        return cs
    InputTerm.domain_constraints = dc


patch_domain_constraints()


def concretize_ctor(ex, node):
    cur = ex.allowed(node)
    if len(cur) == 1:
        return next(iter(cur))
    for ct in sorted(cur, key=I.CTORS.index):
        if ex.decide_ctor(node, frozenset([ct])):
            return ct
    raise PathAbort()


def call_type_check(it, term, tctx=None, dctx=None):
    tctx = tctx if tctx is not None else VecV()
    dctx = dctx if dctx is not None else VecV()
    r = it.call("type_checker", "type_check", [none(), Str(""), term, tctx, dctx])
    return it.resolve(r), tctx, dctx


def input_case(ex, model, root):
    """Concrete input (term + initial cells) of the current path under a model."""
    conc = T.Concretizer(ex, model, initial_cells=True)
    tj = conc.term(root)
    return {"t": tj, "cells": conc.cells_table()}


def native_type_check(replay, case, run=False):
    return replay.call({"op": "type_check", "term": case["t"], "cells": case.get("cells", {}),
                        "typing_ctx": case.get("typing_ctx", []), "defs_ctx": case.get("defs_ctx", []), "source": "", "run": run})


def ref_judge(cx, term, ctx=None, fuel=4000):
    """Run the reference checker on a concrete term value: ('ok', type) | ('reject', why) | ('unknown', why)."""
    rc = RefChecker(cx, None, fuel=fuel)
    try:
        ty = rc.infer(term, ctx or [])
        return ("ok", ty, rc)
    except Reject as r:
        return ("reject", r.why, rc, r.roles)
    except RefUnknown as u:
        return ("unknown", u.why, rc)
