#!/usr/bin/env python3
"""Confirm a seeded breaking change in a scratch worktree: (1) the unedited suite passes with the
change, (2) the demonstration fails with it, (3) passes without it.
usage: confirm_seed.py <worktree> [--test-file demo_test.rs --module src/x.rs] [--sh demo.sh]"""
import argparse, os, re, subprocess, sys

ap = argparse.ArgumentParser()
ap.add_argument("wt")
ap.add_argument("--test-file")
ap.add_argument("--module")
ap.add_argument("--sh")
ap.add_argument("--invert", action="store_true", help="the demo script exits 0 when the bug is PRESENT")
a = ap.parse_args()
env = dict(os.environ, CARGO_NET_OFFLINE="true", NO_COLOR="1")

def run(cmd, **kw):
    p = subprocess.run(cmd, cwd=a.wt, env=env, stdout=subprocess.PIPE, stderr=subprocess.STDOUT, text=True, **kw)
    return p.returncode, p.stdout

def suite():
    rc, out = run(["cargo", "test", "--offline"])
    m = re.findall(r"test result: (\w+)\. (\d+) passed; (\d+) failed", out)
    return rc, m

def demo():
    if a.sh:
        rc, out = run(["bash", os.path.join("seed_out", a.sh)])
        return (rc != 0) if a.invert else (rc == 0), out[-400:]
    src = open(os.path.join(a.wt, a.module)).read()
    test = open(os.path.join(a.wt, "seed_out", a.test_file)).read()
    names = re.findall(r"fn\s+(\w+)\s*\(", test)
    i = src.rstrip().rfind("}")
    patched = src[:i] + "\n" + test + "\n" + src[i:]
    open(os.path.join(a.wt, a.module), "w").write(patched)
    try:
        rc, out = run(["cargo", "test", "--offline", names[0]])
        m = re.findall(r"test result: (\w+)\. (\d+) passed; (\d+) failed", out)
        ok = rc == 0 and any(int(p) >= 1 for _, p, _ in m)
        return ok, out[-600:]
    finally:
        open(os.path.join(a.wt, a.module), "w").write(src)

patch = os.path.join(a.wt, "seed_out", "patch.diff")
rc, m = suite()
print("suite with change:", rc, m)
ok_with, out_with = demo()
print("demo with change passes:", ok_with)
run(["git", "apply", "-R", patch])
try:
    ok_without, out_without = demo()
    print("demo without change passes:", ok_without)
finally:
    run(["git", "apply", patch])
good = rc == 0 and m and all(f == "0" for _, _, f in m) and (not ok_with) and ok_without
print("CONFIRMED" if good else "NOT CONFIRMED")
if not good:
    print(out_with); print(out_without)
sys.exit(0 if good else 1)
