#!/usr/bin/env python3
"""Generates /verif/MANIFEST.json from the table below (keeps it valid and in one place)."""
import json
import os

HERE = os.path.dirname(os.path.dirname(os.path.abspath(__file__)))

TECH = ("symbolic execution of the real function bodies (AST re-exported from /repo/src on every run) with z3 deciding "
        "every path obligation; counterexamples replayed on the compiled code")

CHECKS = {
    "C11": dict(
        text="Bounded symbolic verification: de_bruijn::{signed_shift,unsigned_shift,open} and term::free_variables are executed "
             "symbolically (every call summarised and merged) over templates of all hole-free terms of depth <= 3 with groups of up to 3 "
             "definitions; constructor tags, indices, cutoffs, amounts and the inserted term are symbolic. Nine laws (differential against a "
             "textbook shift/substitution/free-variable reference plus the algebraic laws of the statement) are each discharged by z3 as "
             "unsat for all shapes and all scalar values in the bound. Nothing is claimed for deeper terms.",
        note="Trusted: the executor's Rust-subset semantics and library models (validated on every run against the compiled code on seeded "
             "random inputs), the reference substitution, z3. Scalars are mathematical integers below 2^62.",
        ref="DESIGN.md 4 (C11)"),
    "C02": dict(
        text="Bounded symbolic verification of the evaluator: evaluator::step/is_value (with open, shifts) executed symbolically and compared "
             "with an independent one-step call-by-value reference on merged templates (depth 2, groups <= 3) and, by path forking, on every closed "
             "hole-free term of up to 5 (quick) / 6 (thorough) nodes, where evaluate() is also compared with a big-step environment interpreter "
             "(same outcome, same ground value); plus program skeletons (recursion, mutual recursion, higher-order, nested groups) with all integer "
             "literals symbolic. Integer operands are unbounded; z3 decides each path. Skeletons include local groups of 2-3 definitions inside recursive functions and inside functions passed to higher-order functions, and a recursive definition that uses a later sibling; on the skeletons the reference interprets the program AS PARSED while the real evaluator runs the term elaborated by the compiled checker, and violations are confirmed end to end on the compiled pipeline from source text.",
        note="Trusted: executor + library models (BigInt as mathematical integers, truncating division) validated against the compiled code each run; "
             "the reference semantics; z3. Evaluation beyond the fuel bound and terms with unresolved holes are outside the claim.",
        ref="DESIGN.md 4 (C02)"),
}

CHECKS["C03"] = dict(
    text="Bounded symbolic verification: type_checker::type_check with everything below it (unify, normalize_weak_head, syntactically_equal, "
         "open, shifts; hole cells as per-path store) is executed by path forking on every closed parser-shaped program of up to 4 (quick) / 5 "
         "(thorough) nodes, holes and omitted annotations included, all scalars symbolic. Whenever it accepts with all holes resolved, an independent "
         "reference checker for explicitly typed terms must accept the elaborated term and its type must be convertible with the reported one; z3 "
         "decides each path and every counterexample is replayed on the compiled checker. One listed known finding (annotations are never checked). Plus positional 'interplay' families (DESIGN.md 3): aliases then a binder, two aliases then a function type, a group of two definitions under a binder (also applied), a group inside an annotation -- 6 to 13 nodes with all indices symbolic.",
    note="Trusted: executor + library models (validated each run on ~150-800 random programs against the compiled type_check, elaboration compared "
         "node by node), the reference checker (Type:Type, beta/delta/group unfolding, lambda annotations ignored in conversion), z3. Results with "
         "unresolved holes and programs beyond the node budget are outside the claim; deeper unifier defects are decided at the unify level by C12.",
    ref="DESIGN.md 4 (C03)")
CHECKS["C12"] = dict(
    text="Bounded symbolic verification of unifier::unify: executed by path forking with hole cells as tracked store locations on (a) independent "
         "pairs of terms with holes, (b) pattern/instance pairs where the pattern is the instance with holes punched at symbolic positions with symbolic "
         "shifts, in both argument orders, under four definition contexts, plus reflexivity on hole-free terms. After every successful unification z3 "
         "decides: the sides are convertible (reference normaliser) once solutions are filled in, every solution is in scope for every occurrence of its "
         "hole, the solution graph is acyclic, the context is unchanged.",
    note="Trusted: executor + library models (validated each run against the compiled unify incl. the cells it wrote), reference conversion, z3. "
         "Node budgets are small (2+2 quick, 3+3 thorough); holes shared between occurrences and larger terms are outside the claim.",
    ref="DESIGN.md 4 (C12)")

CHECKS["C01"] = dict(
    text="Bounded symbolic verification of progress: the real parser::check_definitions and type_checker::type_check run by path forking on closed "
         "parser-shaped programs (<= 4/5 nodes with holes, plus families of definition groups with forward references, values and non-values in every "
         "order, and groups nested in definitions); for every accepted program evaluator::step is iterated (40-60 steps) and z3 decides on each path that "
         "evaluation ends in a value, keeps running, or stops at a division by zero. The executor names why a term is stuck; violations are replayed end to "
         "end on the compiled code. Three listed known findings (value definitions used early, unresolved holes accepted, holes copied by open). Added families: a group in which a function's body is a sum or call over group members and another member calls it; and program skeletons accepted by the compiled front end (recursion, mutual recursion, local groups, a recursive definition using a later sibling) with every literal symbolic, on which the real step is iterated to a value.",
    note="Trusted: executor + library models (validated each run against the compiled type_check and check_definitions), z3. Tokenizer and packrat "
         "stage are not part of this encoding (inputs are terms satisfying the parser-output invariants).",
    ref="DESIGN.md 4 (C01)")
CHECKS["C04"] = dict(
    text="Bounded symbolic verification of type preservation for results: type_check -> evaluate -> the reference checker types the value; on each "
         "path (closed programs <= 4/5 nodes with holes, plus groups of 2 definitions over leaves/sums/calls/lambdas) z3 decides that the value's type "
         "is convertible with the reported type and that int/bool/function/type results have the matching value form. Plus the interplay families of DESIGN.md 3 (aliases then a binder, a group under a binder, a group inside an annotation).",
    note="Trusted: executor + models (validated against the compiled code each run), reference checker, z3. Results with unresolved holes, "
         "evaluation beyond fuel and larger programs are outside the claim.",
    ref="DESIGN.md 4 (C04)")
CHECKS["C05"] = dict(
    text="Bounded symbolic verification of completeness on annotated programs: every closed hole-free program (<= 4/5 nodes; all groups of 2 and 3 leaf "
         "definitions incl. forward type aliases) that the reference checker accepts is run through the real type_check, which must terminate within fuel, "
         "accept, and report a convertible type whose normalisation terminates; and for every accepted program (holes allowed) the elaborated term equals the "
         "source node for node. z3 decides each path; counterexamples replayed on the compiled checker. One defect found this way was repaired (fix: 32fe3ab). Plus the fully annotated interplay families of DESIGN.md 3, including a type-level function whose body is a group applied to a bound variable inside an annotation.",
    note="Trusted: executor + models, the reference checker as the definition of 'well typed' (explicit application of an implicit function is ill typed), z3.",
    ref="DESIGN.md 4 (C05)")
CHECKS["C06"] = dict(
    text="Bounded symbolic verification of coherence between conversion and evaluation: by path forking over the real normalize_weak_head, unify, "
         "syntactically_equal, evaluate/step and type_check: accepted closed programs (<= 4/6 nodes) of type int/bool normalise to the literal they evaluate to "
         "and unify with their first three reducts; hole-free pairs (2+2 / 3+3 nodes, four contexts): unify is symmetric and agrees with equality of reference "
         "normal forms; every hole-free term unifies with itself. z3 decides each path. Plus pairs of groups of 1 or 2 definitions of equal and different sizes, A1 on the program skeletons of C02 (literals symbolic), and every arithmetic/comparison operator over variables on both sides (the structural rule on stuck operands).",
    note="Trusted: executor + models (validated against the compiled code), reference normaliser (lambda annotations ignored, division by zero stuck), z3.",
    ref="DESIGN.md 4 (C06)")
CHECKS["C18"] = dict(
    text="Bounded symbolic verification of context handling: type_check under five context shapes mixing parameters and definitions (offsets 0 and n-i) on "
         "terms <= 4/5 nodes with holes: after every call, accepted or rejected, both context vectors are identical to before (same entries); the verdict equals "
         "that of the closed program obtained by binding the context around the term; normalize_weak_head of a context variable equals the reference for symbolic "
         "index. z3 decides each path; counterexamples replayed on the compiled code with the same contexts. Nine context shapes (parameters, definitions, type-level aliases next to other entries, and two definitions that close as one group); X4: the type reported for the closed program is the open type closed over the context (reference conversion); panics under a context are reported.",
    note="Trusted: executor + models (validated incl. under a non-empty context), z3. Contexts longer than 2 entries are outside the claim.",
    ref="DESIGN.md 4 (C18)")

CHECKS["C07"] = dict(
    text="Three parts. (A) tree shape: the real reassociate_applications/_products_and_quotients/_sums_and_differences, composed as in parse(), are executed "
         "symbolically (summarised, merged) on the right-nested chains of every expression with <= 4 (quick) / 5 (thorough) operands over application, * /, + - and "
         "parentheses; the operator of every link is symbolic; z3 decides slot by slot that the result is the left fold that honours every parenthesis. "
         "(B) the packrat parser itself: parser::parse (all 36 memoised parse functions, macros expanded, the HashMap cache, error recovery) is executed on symbolic "
         "token sequences -- a token's kind is a solver variable refined only when the parser inspects it, so one path stands for a product of kinds; every "
         "sequence of <= 3 (quick) / 4 (thorough) tokens over all 29 kinds, and <= 5 / 6 tokens over four restricted alphabets (binders, definitions, operators, "
         "conditionals). Obligations: the packrat stage accepts exactly the sentences of /repo/grammar.y (B1, both directions, recogniser generated from the "
         "grammar each run) and builds the tree of the unique derivation: node kinds, token spans, group flags, binders (B2). "
         "(C) grammar.y itself: for every token string of length <= 6/8 over the 28 token kinds, z3 shows that no span has two derivations. "
         "Defects found and repaired: by (A) fix 49713ec, by (B) fix 176659c (tokens skipped before a closing parenthesis were accepted). Counterexamples are "
         "spelled back into source text and replayed through the compiled tokenizer and parser.",
    note="Trusted: executor + models (validated on concrete chains and on concrete token sequences against the compiled parser), the CFG recogniser, z3. Token "
         "sequences are restricted to those the tokenizer can emit (line-break terminator only between LAST and FIRST tokens, as C09/C10 establish).",
    ref="DESIGN.md 4 (C07)")
CHECKS["C14"] = dict(
    text="No-panic and faithful-failure obligations decided on symbolic inputs of every stage; each panic site of the real code (unwrap/expect, panic!, index and "
         "slice bounds, RefCell rules, checked arithmetic) raises in the executor and becomes a reported, natively replayed violation. P: parser::parse (packrat "
         "functions, error collection, re-association, name resolution, definition order) on every sequence of <= 4 (quick) / 5 (thorough) tokens, kinds symbolic "
         "and refined lazily: no panic, finishes within the fuel bound, returns Ok or a non-empty error list. K: tokenize on every text of <= 3/4 symbolic "
         "characters (C09's exploration): no panic, rejection carries an error. S: type_check on programs of <= 4 nodes and resolve_variables on trees of <= 5/6 "
         "nodes: no panic, rejection carries an error. L: listing on symbolic text: no slice off a character boundary, no underflow. M: the process glue "
         "of src/main.rs (main, entry, run, collect_errors, with the real error::throw, Display for Error and evaluate) executed with the command-line shape, "
         "the readability of the file and every stage's outcome (Ok, or 1..3 errors of three message shapes) as solver variables; println!/eprintln!/exit are "
         "events: a failing stage gives status 1, nothing on stdout, exactly the stage's [Error] diagnostics in order on stderr and no later stage runs; success "
         "gives status 0, nothing on stderr, the elaborated term and type (check) or the value (run); check never evaluates; no panic. The model is compared "
         "with the real binary on every scenario class on every run and violations are replayed on the real binary.",
    note="Trusted: executor + models, z3; panics the executor does not model (allocation failure, stack overflow) are outside. Part M replaces tokenize/parse/"
         "type_check by nondeterministic stubs that honour the contract parts P, K, S establish (Ok or a non-empty error list); invalid UTF-8 is the case "
         "'read_to_string fails'. NOT covered: clap's own argument handling, thread creation failure, colour; inputs beyond the bounds.",
    ref="DESIGN.md 4 (C14)")
CHECKS["C08"] = dict(
    text="Bounded symbolic verification of scoping: the real parser::resolve_variables/collect_definitions run by path forking on every syntax-tree skeleton "
         "of <= 6 (quick) / 7 (thorough) nodes over variable, lambda, pi, application, let (groups via nested lets), with every binder/occurrence/context name "
         "symbolic over {_, a, b}; the solver decides which names coincide. Oracle: an independent named-scope resolver. Obligations: rejected iff an unbound "
         "name or re-binding exists; unbound occurrences reported once at their identifier; on success all indices/holes equal the reference, the name map is "
         "unchanged, the parser-output invariants hold. The parenthesised flag of every let node is a symbolic Boolean (it must not influence scoping or the flattening of nested lets).",
    note="Trusted: executor + models (validated against the compiled resolve_variables), the reference resolver, z3. Identifier spelling is C09's part.",
    ref="DESIGN.md 4 (C08)")
CHECKS["C13"] = dict(
    text="Determinism as an explored choice: in the executor every iteration over a RandomState hash container visits its elements in an order chosen by the "
         "search; check_definitions is run twice with independent orders on symbolic definition groups (2-3 definitions quick, up to 4 thorough; which definition "
         "mentions which is symbolic) and z3 decides that the diagnostic sequences are identical; the rest of the pipeline must not iterate a hash container at "
         "all. The defect this found was repaired (fix: 951bf89); counterexamples are confirmed by 60 native runs with fresh hash keys. D3: tokenize run twice on symbolic texts of 2-3 characters with at least two unexpected symbols, independent iteration orders for every hash container: same diagnostics in the same order.",
    note="Trusted: executor + models, z3. Process-level variation (environment, colour settings, separate launches) is outside the encoding.",
    ref="DESIGN.md 4 (C13)")

CHECKS["C15"] = dict(
    text="Four solver-decided parts. L: error::listing is executed on symbolic text (code points symbolic over ASCII plus 12 non-ASCII representatives, byte offsets "
         "symbolic sums of UTF-8 widths; 5 characters quick, 7 thorough) with every token-shaped range on character boundaries; a character-level reference fixes "
         "the lines shown and their numbers, the highlighted slice, and the overline's column and length in characters, while the real function does byte "
         "arithmetic and string slicing (slicing off a boundary or an underflow is a reported panic). T: type_check on symbolic programs (<= 4 nodes quick, 5 "
         "thorough) whose nodes carry distinct ranges: a program rejected with one diagnostic points at the subterm the reference checker blames. S: the C08 "
         "exploration of resolve_variables with symbolic names, keeping the obligation that each unbound occurrence is reported once with that identifier's "
         "range. U: the C09 exploration of tokenize, keeping the obligation that an unexpected symbol's range is exactly that grapheme. B: the packrat parser on "
         "symbolic token sequences of 3-6 (quick) / 7 (thorough) tokens over the binder alphabet: every lambda/pi/let binder's range is its identifier token. "
         "Defects found and repaired: by L fix bc229c2 (overline counted bytes), by B fix 0ee217c (implicit binder pointed at the brace). Counterexamples are rendered by the compiled listing / type checker (a one-line ruler as source recovers the range). Plus O: every definition-order diagnostic of the real check_definitions on symbolic groups of 2-3 definitions carries the range of the definition it names. A: after the three re-association passes (chains of <= 4/5 operands with parentheses and unary minus) the range of every chain node covers both of its operands or is a parenthesised range.",
    note="Trusted: executor + models (char predicates and UTF-8 widths read from compiled std and validated), the reference checker's blame site, z3. NOT covered: "
         "re-parsing a node's slice; colour mode; "
         "display width of wide/combining characters.",
    ref="DESIGN.md 4 (C15)")

CHECKS["C16"] = dict(
    text="The real Display for Term (fmt, group, the free-variable test choosing the dependent or the plain arrow) is executed on a symbolic parser-shaped term "
         "-- constructors, implicit flags, De Bruijn indices and literals are solver variables, the printer forks where its output depends on them. On each "
         "path the written pieces are assembled into text (an occurrence prints the name of the binder its index selects), the compiled tokenizer produces "
         "the tokens, the real parser (executed by the interpreter, same symbolic payloads) reads them back and z3 decides that the result equals the original "
         "for all remaining values: formers, implicitness, indices, literals, holes; names ignored. Families: every term of <= 4 (quick) / 5 (thorough) nodes; "
         "every former in operand position 0-2 / 0-4 of every former. One defect repaired (fix: 4bf820b, a definition group as parameter type was printed "
         "bare); one recorded as known finding (`{a : int} -> int` prints as `{int} -> int`; an existing test asserts that output). Counterexamples are "
         "replayed with the compiled printer, tokenizer and parser and classified by their minimal failing subterm.",
    note="Trusted: executor + models (Display validated against the compiled printer on random programs), z3, the compiled tokenizer (C09's subject). A hole "
         "reads back as a hole; its shift is not compared. Input terms are assumed to satisfy the parser-output invariants including the real "
         "check_definitions.",
    ref="DESIGN.md 4 (C16)")

CHECKS["C19"] = dict(
    text="Relational check without a reference: the real pipeline is executed twice on the same symbolic program, as written and rewritten, and z3 decides that "
         "acceptance and value agree on every path. Term level (type_check -> evaluate on every closed parser-shaped program of <= 4 (quick) / 5 (thorough) nodes; "
         "two views of the same solver variables with separate hole cells): R1 add an unused definition, R2 name the program with a definition, R3 immediately "
         "applied annotated identity (annotation = the reported type), R4 `if true then p else p`, each at the root. Token level (the real parser on every "
         "sequence of <= 3 / 4 symbolic tokens, names symbolic): R6 swapping the two names everywhere gives the same term up to names and the same acceptance, "
         "R7 parentheses around the program and around each single atom in expression position give the same term. Counterexamples are replayed on the "
         "compiled type checker/evaluator or tokenizer/parser. Plus rewrites at an inner group (unused definition appended / in front, body named, body wrapped in if-true) and exchange of two function definitions, built from mapped views of the same symbolic nodes, on hole-free families (groups of 1 and 2 definitions under a binder, applied to one and two arguments; two annotated functions), and operand rewrites (an operand wrapped in if-true or in an applied identity) for every arithmetic/comparison operator.",
    note="Trusted: executor + models, z3. Programs accepted with unresolved holes (known finding of C01) are excluded as baselines. NOT covered: R1-R4 at inner "
         "sites, reordering of independent definitions, sequences of rewrites, the CLI layer.",
    ref="DESIGN.md 4 (C19)")

CHECKS["C09"] = dict(
    text="Bounded symbolic verification of the tokenizer: tokenizer::tokenize (both passes) is executed by path forking on every text of up to 3 (quick) / 4 "
         "(thorough) characters whose code points are symbolic over all of ASCII plus 12 non-ASCII representatives (2/3/4-byte letters, a non-ASCII digit, "
         "multi-byte blanks, combining marks, an illegal symbol, an emoji); byte offsets are symbolic sums of UTF-8 widths. Oracle: an independent maximal-munch "
         "lexer whose line-break rule is computed from grammar.y. z3 decides on each path: same token kinds, byte ranges, lexemes and literal values as the "
         "reference; ranges increasing, non-empty, within the text; on rejection exactly one error per unexpected grapheme with that grapheme's range. Two "
         "defects found this way were repaired (fix: b485fec, 624d172). Plus families over restricted alphabets: digit-only texts of 5..40 (thorough 80) symbolic characters (one path per length, the value a linear form in the digits; str::parse modelled with its overflow) and words of up to 6 (7) characters over the letters of the keywords, `_` and a digit.",
    note="Trusted: executor + library models; char predicates/UTF-8 widths of the representatives and the grapheme-break rule are read from and validated "
         "against the compiled std/unicode-segmentation on every run; z3. Longer texts and other code points are outside the claim.",
    ref="DESIGN.md 4 (C09)")
CHECKS["C10"] = dict(
    text="Relational symbolic verification of layout insensitivity: tokenize is executed on pairs of related symbolic texts (shared symbolic characters) and z3 "
         "decides that the token streams agree: deleting a comment up to its line break (empty, multi-byte-ending, at end of file); inserting a blank (space, tab, "
         "CR, U+00A0) anywhere outside a token; doubling/tripling a line break; replacing a separating line break by `;`; and, for all 28x28 pairs of token kinds "
         "with two kinds of gap, that a line break yields a terminator iff LAST/FIRST of `term` in grammar.y say so (`;` counting as both, infix MINUS continuing). Plus L6, context independence of the line-break rule: 2-3 symbolic context characters over brackets and separators, then token, line break, token, against the reference lexer.",
    note="Trusted: as C09. The parser's equal treatment of the two terminator kinds is not part of this encoding.",
    ref="DESIGN.md 4 (C10)")

CHECKS["C17"] = dict(
    text="Bounded work bound for the packrat parser (the mechanism behind the property, not its asymptotics): the real parser::parse -- every memoised "
         "parse_* function with the cache macros expanded and the HashMap cache -- is executed on every sequence of <= 3 (quick) / 4 (thorough) symbolic "
         "tokens over all 29 kinds, well-formed and malformed alike, and on every path the number of calls of parse_* functions (cache hits included) must "
         "stay below 4 * S * (n + 1), S being the number of static parse_* call sites read from parser.rs on this run (the packrat invariant gives "
         "S * (n + 1) + 1). A parser whose work multiplies per nesting level (failures not memoised, a cycle of un-memoised functions) exceeds the bound "
         "by orders of magnitude already on 0-2 tokens because the precedence ladder is ~15 levels deep. A violation is replayed natively: the compiled "
         "tokenizer + parser timed on the witness wrapped in 0..3 pairs of parentheses must grow geometrically. Part D: the definition-order pass on a symbolic group of one non-value definition and three functions with shared helpers enters check_definition at most once per definition (without its `visited` set the walk is exponential in the group size); replayed natively on a layered family of 20/26/32 functions.",
    note="This does NOT decide growth for n in the thousands (no bounded check can); it decides that within the bound no input costs more than a constant "
         "multiple of the packrat work, which is what excludes the exponential families at their smallest members. The factor 4 tolerates un-memoising "
         "single functions whose callers are memoised (parsing stays linear: not a violation). The tokenizer (a single pass) and wall-clock time are outside. "
         "Trusted: executor + models (parser validated against the compiled parser each run), z3.",
    ref="DESIGN.md 4 (C17)")

NOT_APPLICABLE = {
}

ALL = ["C%02d" % i for i in range(1, 20)]


def main():
    checks = []
    for pid in ALL:
        if pid not in CHECKS:
            continue
        c = CHECKS[pid]
        checks.append({
            "property_id": pid,
            "quick_cmd": "./check %s --tier quick" % pid,
            "thorough_cmd": "./check %s --tier thorough" % pid,
            "evidence_file": "/verif/evidence/%s.json" % pid,
            "replay_cmd_template": "./check %s --replay {path}" % pid,
            "engine": "gramsym",
            "level_claimed": {"category": "model_checking", "text": c["text"], "design_ref": c["ref"]},
            "level_note": c["note"],
            "technique": c.get("technique", TECH),
        })
    na = []
    for pid in ALL:
        if pid in CHECKS:
            continue
        na.append({"property_id": pid, "reason": NOT_APPLICABLE.get(pid, "check not built yet at this commit (planned, see DESIGN.md section 4)")})
    m = {
        "version": 1,
        "setup_cmd": "cd /verif/tools/rs2json && CARGO_NET_OFFLINE=true cargo build --release --offline && cd /verif/tools/gram-replay && CARGO_NET_OFFLINE=true cargo build --offline && (gcc -O2 -shared -fPIC -o /verif/tools/mmapcache/mmapcache.so /verif/tools/mmapcache/mmapcache.c -ldl || true)",
        "hooks": {
            "guard": "gram_verif",
            "enable": "no source hooks are needed: the checks read /repo/src directly (AST export) and include! the same files in tools/gram-replay",
            "baseline_off_cmd": "cd /repo && cargo test --workspace --no-fail-fast --offline",
            "source_commits": [],
            "add_only": True,
        },
        "engines": [{
            "name": "gramsym",
            "path": "/verif/gramsym",
            "serves_properties": sorted(CHECKS),
            "kind_free_text": "symbolic executor (Python + z3) for the Rust subset gram is written in; front end tools/rs2json (syn), "
                              "native replay tools/gram-replay (the compiled /repo sources)",
        }],
        "checks": checks,
        "notes": "Every check rebuilds its encoding from /repo's working tree (AST export + cargo build of gram-replay). Exit 0 = held on everything "
                 "explored, 1 = reproduced violation (VIOLATION line), 2 = inconclusive (never reported as pass).",
        "not_applicable": na,
    }
    with open(os.path.join(HERE, "MANIFEST.json"), "w") as fh:
        json.dump(m, fh, indent=1)
        fh.write("\n")


if __name__ == "__main__":
    main()
