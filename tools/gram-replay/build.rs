fn main() {
    println!("cargo:rerun-if-env-changed=GRAM_REPO");
    let repo = std::env::var("GRAM_REPO").unwrap_or_else(|_| "/repo".to_string());
    println!("cargo:rustc-env=GRAM_REPO={repo}");
    for f in ["assertions","de_bruijn","equality","error","evaluator","format","normalizer","parser","term","token","tokenizer","type_checker","unifier"] {
        println!("cargo:rerun-if-changed={repo}/src/{f}.rs");
    }
}
