// gram-replay: runs the *compiled* functions of gramlang/gram on concrete inputs given as JSON, one
// command per line on stdin, one JSON result per line on stdout.  The repository's source files are
// included textually (no change to /repo is needed); private parser items are reached through shim
// functions appended to the `parser` module.
#![allow(dead_code, unused_imports, unused_macros, clippy::all)]

macro_rules! repo_mod {
    ($name:ident, $file:literal) => {
        mod $name {
            include!(concat!(env!("GRAM_REPO"), "/src/", $file));
        }
    };
}

repo_mod!(assertions, "assertions.rs");
repo_mod!(de_bruijn, "de_bruijn.rs");
repo_mod!(equality, "equality.rs");
repo_mod!(error, "error.rs");
repo_mod!(evaluator, "evaluator.rs");
repo_mod!(format, "format.rs");
repo_mod!(normalizer, "normalizer.rs");
repo_mod!(term, "term.rs");
repo_mod!(token, "token.rs");
repo_mod!(tokenizer, "tokenizer.rs");
repo_mod!(type_checker, "type_checker.rs");
repo_mod!(unifier, "unifier.rs");

mod parser {
    include!(concat!(env!("GRAM_REPO"), "/src/parser.rs"));

    // ---- shims (part of gram-replay, not of the repository) ----
    use serde_json::{Value, json};

    fn leak(s: &str) -> &'static str {
        Box::leak(s.to_owned().into_boxed_str())
    }

    fn sr_from(v: &Value) -> SourceRange {
        SourceRange {
            start: v[0].as_u64().unwrap_or(0) as usize,
            end: v[1].as_u64().unwrap_or(0) as usize,
        }
    }

    fn sr_to(s: SourceRange) -> Value {
        json!([s.start, s.end])
    }

    fn sv_from(v: &Value) -> SourceVariable<'static> {
        SourceVariable {
            source_range: sr_from(&v["sr"]),
            name: leak(v["name"].as_str().unwrap()),
        }
    }

    fn pterm_from_json(v: &Value) -> Term<'static> {
        let kid = |i: usize| Rc::new(pterm_from_json(&v["kids"][i]));
        let variant = match v["v"].as_str().unwrap() {
            "ParseError" => Variant::ParseError,
            "Type" => Variant::Type,
            "Variable" => Variant::Variable(leak(v["name"].as_str().unwrap())),
            "Lambda" => Variant::Lambda(
                sv_from(&v["var"]),
                v["implicit"].as_bool().unwrap(),
                if v["domain"].is_null() { None } else { Some(Rc::new(pterm_from_json(&v["domain"]))) },
                Rc::new(pterm_from_json(&v["body"])),
            ),
            "Pi" => Variant::Pi(
                sv_from(&v["var"]),
                v["implicit"].as_bool().unwrap(),
                Rc::new(pterm_from_json(&v["domain"])),
                Rc::new(pterm_from_json(&v["codomain"])),
            ),
            "Application" => Variant::Application(kid(0), kid(1)),
            "Let" => Variant::Let(
                sv_from(&v["var"]),
                if v["ann"].is_null() { None } else { Some(Rc::new(pterm_from_json(&v["ann"]))) },
                Rc::new(pterm_from_json(&v["def"])),
                Rc::new(pterm_from_json(&v["body"])),
            ),
            "Integer" => Variant::Integer,
            "IntegerLiteral" => Variant::IntegerLiteral(v["value"].as_str().unwrap().parse::<BigInt>().unwrap()),
            "Negation" => Variant::Negation(kid(0)),
            "Sum" => Variant::Sum(kid(0), kid(1)),
            "Difference" => Variant::Difference(kid(0), kid(1)),
            "Product" => Variant::Product(kid(0), kid(1)),
            "Quotient" => Variant::Quotient(kid(0), kid(1)),
            "LessThan" => Variant::LessThan(kid(0), kid(1)),
            "LessThanOrEqualTo" => Variant::LessThanOrEqualTo(kid(0), kid(1)),
            "EqualTo" => Variant::EqualTo(kid(0), kid(1)),
            "GreaterThan" => Variant::GreaterThan(kid(0), kid(1)),
            "GreaterThanOrEqualTo" => Variant::GreaterThanOrEqualTo(kid(0), kid(1)),
            "Boolean" => Variant::Boolean,
            "True" => Variant::True,
            "False" => Variant::False,
            "If" => Variant::If(kid(0), kid(1), kid(2)),
            other => panic!("unknown parser variant {other}"),
        };
        Term {
            source_range: sr_from(&v["sr"]),
            group: v["group"].as_bool().unwrap_or(false),
            variant,
            errors: vec![],
        }
    }

    fn pterm_to_json(t: &Term) -> Value {
        let mut j = json!({"sr": sr_to(t.source_range), "group": t.group, "nerrors": t.errors.len()});
        let sv = |s: &SourceVariable| json!({"name": s.name, "sr": sr_to(s.source_range)});
        let bin = |name: &str, a: &Rc<Term>, b: &Rc<Term>| json!({"v": name, "kids": [pterm_to_json(a), pterm_to_json(b)]});
        let body = match &t.variant {
            Variant::ParseError => json!({"v":"ParseError"}),
            Variant::Type => json!({"v":"Type"}),
            Variant::Variable(n) => json!({"v":"Variable","name":n}),
            Variant::Lambda(var, imp, dom, b) => json!({"v":"Lambda","var":sv(var),"implicit":imp,
                "domain": dom.as_ref().map(|d| pterm_to_json(d)).unwrap_or(Value::Null), "body": pterm_to_json(b)}),
            Variant::Pi(var, imp, dom, cod) => json!({"v":"Pi","var":sv(var),"implicit":imp,
                "domain": pterm_to_json(dom), "codomain": pterm_to_json(cod)}),
            Variant::Application(a, b) => bin("Application", a, b),
            Variant::Let(var, ann, def, b) => json!({"v":"Let","var":sv(var),
                "ann": ann.as_ref().map(|d| pterm_to_json(d)).unwrap_or(Value::Null), "def": pterm_to_json(def), "body": pterm_to_json(b)}),
            Variant::Integer => json!({"v":"Integer"}),
            Variant::IntegerLiteral(i) => json!({"v":"IntegerLiteral","value":i.to_string()}),
            Variant::Negation(a) => json!({"v":"Negation","kids":[pterm_to_json(a)]}),
            Variant::Sum(a, b) => bin("Sum", a, b),
            Variant::Difference(a, b) => bin("Difference", a, b),
            Variant::Product(a, b) => bin("Product", a, b),
            Variant::Quotient(a, b) => bin("Quotient", a, b),
            Variant::LessThan(a, b) => bin("LessThan", a, b),
            Variant::LessThanOrEqualTo(a, b) => bin("LessThanOrEqualTo", a, b),
            Variant::EqualTo(a, b) => bin("EqualTo", a, b),
            Variant::GreaterThan(a, b) => bin("GreaterThan", a, b),
            Variant::GreaterThanOrEqualTo(a, b) => bin("GreaterThanOrEqualTo", a, b),
            Variant::Boolean => json!({"v":"Boolean"}),
            Variant::True => json!({"v":"True"}),
            Variant::False => json!({"v":"False"}),
            Variant::If(a, b, c) => json!({"v":"If","kids":[pterm_to_json(a), pterm_to_json(b), pterm_to_json(c)]}),
        };
        for (k, v) in body.as_object().unwrap() {
            j[k] = v.clone();
        }
        j
    }

    pub fn shim_reassociate(which: &str, tj: &Value) -> Value {
        let t = &pterm_from_json(tj);
        let r = match which {
            "applications" => reassociate_applications(None, t),
            "products" => reassociate_products_and_quotients(None, t),
            "sums" => reassociate_sums_and_differences(None, t),
            _ => reassociate_sums_and_differences(
                None,
                &reassociate_products_and_quotients(None, &reassociate_applications(None, t)),
            ),
        };
        pterm_to_json(&r)
    }

    pub fn shim_resolve(
        source_contents: &'static str,
        tj: &Value,
        context_names: &[&'static str],
    ) -> (term::Term<'static>, Vec<Error>, Vec<(String, usize)>) {
        let t = &pterm_from_json(tj);
        let mut context: HashMap<&'static str, usize> =
            context_names.iter().enumerate().map(|(i, v)| (*v, i)).collect();
        let mut errors = vec![];
        let depth = context.len();
        let r = resolve_variables(None, source_contents, t, depth, &mut context, &mut errors);
        let mut after: Vec<(String, usize)> = context.iter().map(|(k, v)| ((*k).to_owned(), *v)).collect();
        after.sort();
        (r, errors, after)
    }

    pub fn shim_check_definitions(source_contents: &'static str, t: &term::Term<'static>, depth: usize) -> Vec<Error> {
        let mut errors = vec![];
        check_definitions(None, source_contents, t, depth, &mut errors);
        errors
    }

    // Run only the packrat stage: returns the raw tree (before re-association), next, and error count.
    pub fn shim_packrat(tokens: &'static [Token<'static>]) -> (Value, usize, usize) {
        let mut cache = Cache::new();
        let (term, next, _) = parse_term(&mut cache, tokens, 0);
        let mut error_factories = vec![];
        collect_error_factories(&mut error_factories, &term);
        (pterm_to_json(&term), next, error_factories.len())
    }
}

use num_bigint::BigInt;
use serde_json::{Map, Value, json};
use std::cell::RefCell;
use std::collections::HashMap;
use std::io::{BufRead, Write};
use std::rc::Rc;
use term::{Term, Variant};

type Cell = Rc<RefCell<Option<Term<'static>>>>;

fn leak(s: &str) -> &'static str {
    Box::leak(s.to_owned().into_boxed_str())
}

struct In<'t> {
    table: &'t Value,
    cells: HashMap<String, Cell>,
}

impl<'t> In<'t> {
    fn cell(&mut self, id: &str) -> Cell {
        if let Some(c) = self.cells.get(id) {
            return c.clone();
        }
        let c: Cell = Rc::new(RefCell::new(None));
        self.cells.insert(id.to_owned(), c.clone());
        let content = &self.table[id];
        if !content.is_null() {
            let t = self.term(&content.clone());
            *c.borrow_mut() = Some(t);
        }
        c
    }

    fn term(&mut self, v: &Value) -> Term<'static> {
        let sr = if v["sr"].is_null() {
            None
        } else {
            Some(error::SourceRange {
                start: v["sr"][0].as_u64().unwrap() as usize,
                end: v["sr"][1].as_u64().unwrap() as usize,
            })
        };
        let name = |k: &str| leak(v[k].as_str().unwrap_or("_"));
        let variant = match v["v"].as_str().unwrap() {
            "Unifier" => {
                let id = match &v["cell"] {
                    Value::String(s) => s.clone(),
                    other => other.to_string(),
                };
                Variant::Unifier(self.cell(&id), v["shift"].as_u64().unwrap() as usize)
            }
            "Type" => Variant::Type,
            "Variable" => Variant::Variable(name("name"), v["index"].as_u64().unwrap() as usize),
            "Lambda" => Variant::Lambda(
                name("name"),
                v["implicit"].as_bool().unwrap(),
                Rc::new(self.term(&v["kids"][0])),
                Rc::new(self.term(&v["kids"][1])),
            ),
            "Pi" => Variant::Pi(
                name("name"),
                v["implicit"].as_bool().unwrap(),
                Rc::new(self.term(&v["kids"][0])),
                Rc::new(self.term(&v["kids"][1])),
            ),
            "Let" => {
                let mut defs = vec![];
                for d in v["defs"].as_array().unwrap() {
                    defs.push((
                        leak(d["name"].as_str().unwrap()),
                        Rc::new(self.term(&d["ann"])),
                        Rc::new(self.term(&d["def"])),
                    ));
                }
                Variant::Let(defs, Rc::new(self.term(&v["body"])))
            }
            "Integer" => Variant::Integer,
            "IntegerLiteral" => Variant::IntegerLiteral(v["value"].as_str().unwrap().parse::<BigInt>().unwrap()),
            "Boolean" => Variant::Boolean,
            "True" => Variant::True,
            "False" => Variant::False,
            other => {
                let k: Vec<Rc<Term<'static>>> = v["kids"]
                    .as_array()
                    .map(|a| a.iter().map(|x| Rc::new(self.term(x))).collect())
                    .unwrap_or_default();
                match other {
                    "Application" => Variant::Application(k[0].clone(), k[1].clone()),
                    "Negation" => Variant::Negation(k[0].clone()),
                    "Sum" => Variant::Sum(k[0].clone(), k[1].clone()),
                    "Difference" => Variant::Difference(k[0].clone(), k[1].clone()),
                    "Product" => Variant::Product(k[0].clone(), k[1].clone()),
                    "Quotient" => Variant::Quotient(k[0].clone(), k[1].clone()),
                    "LessThan" => Variant::LessThan(k[0].clone(), k[1].clone()),
                    "LessThanOrEqualTo" => Variant::LessThanOrEqualTo(k[0].clone(), k[1].clone()),
                    "EqualTo" => Variant::EqualTo(k[0].clone(), k[1].clone()),
                    "GreaterThan" => Variant::GreaterThan(k[0].clone(), k[1].clone()),
                    "GreaterThanOrEqualTo" => Variant::GreaterThanOrEqualTo(k[0].clone(), k[1].clone()),
                    "If" => Variant::If(k[0].clone(), k[1].clone(), k[2].clone()),
                    _ => panic!("unknown variant {other}"),
                }
            }
        };
        Term { source_range: sr, variant }
    }
}

struct Out {
    ids: Vec<(*const RefCell<Option<Term<'static>>>, usize)>,
    table: Map<String, Value>,
    // cells that came from the input keep their input ids
    known: Vec<(*const RefCell<Option<Term<'static>>>, String)>,
}

impl Out {
    fn new(input: &In) -> Out {
        let known = input.cells.iter().map(|(k, c)| (Rc::as_ptr(c), k.clone())).collect();
        Out { ids: vec![], table: Map::new(), known }
    }

    fn cell_id(&mut self, c: &Cell) -> Value {
        let p = Rc::as_ptr(c);
        for (q, k) in &self.known {
            if *q == p {
                let key = k.clone();
                if !self.table.contains_key(&key) {
                    self.table.insert(key.clone(), Value::Null);
                    let content = { c.borrow().clone() };
                    if let Some(t) = content {
                        let j = self.term(&t);
                        self.table.insert(key.clone(), j);
                    }
                }
                return Value::String(key);
            }
        }
        for (q, i) in &self.ids {
            if *q == p {
                return Value::String(format!("n{i}"));
            }
        }
        let i = self.ids.len();
        self.ids.push((p, i));
        let key = format!("n{i}");
        self.table.insert(key.clone(), Value::Null);
        let content = { c.borrow().clone() };
        if let Some(t) = content {
            let j = self.term(&t);
            self.table.insert(key.clone(), j);
        }
        Value::String(key)
    }

    fn term(&mut self, t: &Term<'static>) -> Value {
        let sr = t.source_range.map(|s| json!([s.start, s.end])).unwrap_or(Value::Null);
        let mut j = match &t.variant {
            Variant::Unifier(c, s) => {
                let id = self.cell_id(c);
                json!({"v":"Unifier","cell":id,"shift":s})
            }
            Variant::Type => json!({"v":"Type"}),
            Variant::Variable(n, i) => json!({"v":"Variable","name":n,"index":i}),
            Variant::Lambda(n, imp, a, b) => json!({"v":"Lambda","name":n,"implicit":imp,"kids":[self.term(a), self.term(b)]}),
            Variant::Pi(n, imp, a, b) => json!({"v":"Pi","name":n,"implicit":imp,"kids":[self.term(a), self.term(b)]}),
            Variant::Application(a, b) => json!({"v":"Application","kids":[self.term(a), self.term(b)]}),
            Variant::Let(defs, body) => {
                let ds: Vec<Value> = defs.iter().map(|(n, a, d)| json!({"name":n,"ann":self.term(a),"def":self.term(d)})).collect();
                json!({"v":"Let","defs":ds,"body":self.term(body)})
            }
            Variant::Integer => json!({"v":"Integer"}),
            Variant::IntegerLiteral(i) => json!({"v":"IntegerLiteral","value":i.to_string()}),
            Variant::Negation(a) => json!({"v":"Negation","kids":[self.term(a)]}),
            Variant::Sum(a, b) => json!({"v":"Sum","kids":[self.term(a), self.term(b)]}),
            Variant::Difference(a, b) => json!({"v":"Difference","kids":[self.term(a), self.term(b)]}),
            Variant::Product(a, b) => json!({"v":"Product","kids":[self.term(a), self.term(b)]}),
            Variant::Quotient(a, b) => json!({"v":"Quotient","kids":[self.term(a), self.term(b)]}),
            Variant::LessThan(a, b) => json!({"v":"LessThan","kids":[self.term(a), self.term(b)]}),
            Variant::LessThanOrEqualTo(a, b) => json!({"v":"LessThanOrEqualTo","kids":[self.term(a), self.term(b)]}),
            Variant::EqualTo(a, b) => json!({"v":"EqualTo","kids":[self.term(a), self.term(b)]}),
            Variant::GreaterThan(a, b) => json!({"v":"GreaterThan","kids":[self.term(a), self.term(b)]}),
            Variant::GreaterThanOrEqualTo(a, b) => json!({"v":"GreaterThanOrEqualTo","kids":[self.term(a), self.term(b)]}),
            Variant::Boolean => json!({"v":"Boolean"}),
            Variant::True => json!({"v":"True"}),
            Variant::False => json!({"v":"False"}),
            Variant::If(a, b, c) => json!({"v":"If","kids":[self.term(a), self.term(b), self.term(c)]}),
        };
        j["sr"] = sr;
        j
    }

    // make sure every input cell appears in the table (so the caller sees what was written)
    fn finish(mut self, input: &In) -> Value {
        let cells: Vec<Cell> = input.cells.values().cloned().collect();
        for c in &cells {
            self.cell_id(c);
        }
        Value::Object(self.table)
    }
}

fn typing_ctx(inp: &mut In, v: &Value) -> Vec<(Rc<Term<'static>>, usize)> {
    v.as_array()
        .map(|a| a.iter().map(|e| (Rc::new(inp.term(&e["term"])), e["offset"].as_u64().unwrap() as usize)).collect())
        .unwrap_or_default()
}

fn defs_ctx(inp: &mut In, v: &Value) -> Vec<Option<(Rc<Term<'static>>, usize)>> {
    v.as_array()
        .map(|a| {
            a.iter()
                .map(|e| {
                    if e.is_null() {
                        None
                    } else {
                        Some((Rc::new(inp.term(&e["term"])), e["offset"].as_u64().unwrap() as usize))
                    }
                })
                .collect()
        })
        .unwrap_or_default()
}

fn typing_ctx_out(out: &mut Out, c: &[(Rc<Term<'static>>, usize)]) -> Value {
    Value::Array(c.iter().map(|(t, o)| json!({"term": out.term(t), "offset": o})).collect())
}

fn defs_ctx_out(out: &mut Out, c: &[Option<(Rc<Term<'static>>, usize)>]) -> Value {
    Value::Array(
        c.iter()
            .map(|e| match e {
                None => Value::Null,
                Some((t, o)) => json!({"term": out.term(t), "offset": o}),
            })
            .collect(),
    )
}

fn errors_json(es: &[error::Error]) -> Value {
    Value::Array(es.iter().map(|e| Value::String(e.to_string())).collect())
}

fn token_json(t: &token::Token) -> Value {
    use token::{TerminatorType, Variant as V};
    let (name, arg) = match &t.variant {
        V::Asterisk => ("Asterisk", Value::Null),
        V::Boolean => ("Boolean", Value::Null),
        V::Colon => ("Colon", Value::Null),
        V::DoubleEquals => ("DoubleEquals", Value::Null),
        V::Else => ("Else", Value::Null),
        V::Equals => ("Equals", Value::Null),
        V::False => ("False", Value::Null),
        V::GreaterThan => ("GreaterThan", Value::Null),
        V::GreaterThanOrEqualTo => ("GreaterThanOrEqualTo", Value::Null),
        V::Identifier(s) => ("Identifier", Value::String((*s).to_owned())),
        V::If => ("If", Value::Null),
        V::Integer => ("Integer", Value::Null),
        V::IntegerLiteral(i) => ("IntegerLiteral", Value::String(i.to_string())),
        V::LeftCurly => ("LeftCurly", Value::Null),
        V::LeftParen => ("LeftParen", Value::Null),
        V::LessThan => ("LessThan", Value::Null),
        V::LessThanOrEqualTo => ("LessThanOrEqualTo", Value::Null),
        V::Minus => ("Minus", Value::Null),
        V::Plus => ("Plus", Value::Null),
        V::RightCurly => ("RightCurly", Value::Null),
        V::RightParen => ("RightParen", Value::Null),
        V::Slash => ("Slash", Value::Null),
        V::Terminator(TerminatorType::LineBreak) => ("Terminator", Value::String("LineBreak".into())),
        V::Terminator(TerminatorType::Semicolon) => ("Terminator", Value::String("Semicolon".into())),
        V::Then => ("Then", Value::Null),
        V::ThickArrow => ("ThickArrow", Value::Null),
        V::ThinArrow => ("ThinArrow", Value::Null),
        V::True => ("True", Value::Null),
        V::Type => ("Type", Value::Null),
    };
    json!({"v": name, "arg": arg, "sr": [t.source_range.start, t.source_range.end]})
}

// Build a token vector (and a consistent source text) from token kinds.
fn tokens_from_json(v: &Value) -> (&'static str, &'static [token::Token<'static>]) {
    use token::{TerminatorType, Variant as V};
    let mut text = String::new();
    let mut specs: Vec<(usize, usize, String, Value)> = vec![];
    for t in v.as_array().unwrap() {
        let kind = t["v"].as_str().unwrap().to_owned();
        let arg = t["arg"].clone();
        let lexeme: String = match kind.as_str() {
            "Asterisk" => "*".into(),
            "Boolean" => "bool".into(),
            "Colon" => ":".into(),
            "DoubleEquals" => "==".into(),
            "Else" => "else".into(),
            "Equals" => "=".into(),
            "False" => "false".into(),
            "GreaterThan" => ">".into(),
            "GreaterThanOrEqualTo" => ">=".into(),
            "Identifier" => arg.as_str().unwrap().to_owned(),
            "If" => "if".into(),
            "Integer" => "int".into(),
            "IntegerLiteral" => arg.as_str().unwrap().to_owned(),
            "LeftCurly" => "{".into(),
            "LeftParen" => "(".into(),
            "LessThan" => "<".into(),
            "LessThanOrEqualTo" => "<=".into(),
            "Minus" => "-".into(),
            "Plus" => "+".into(),
            "RightCurly" => "}".into(),
            "RightParen" => ")".into(),
            "Slash" => "/".into(),
            "Terminator" => {
                if arg.as_str() == Some("LineBreak") { "\n".into() } else { ";".into() }
            }
            "Then" => "then".into(),
            "ThickArrow" => "=>".into(),
            "ThinArrow" => "->".into(),
            "True" => "true".into(),
            "Type" => "type".into(),
            other => panic!("unknown token kind {other}"),
        };
        if !text.is_empty() {
            text.push(' ');
        }
        let start = text.len();
        text.push_str(&lexeme);
        specs.push((start, text.len(), kind, arg));
    }
    let text: &'static str = leak(&text);
    let mut toks = vec![];
    for (start, end, kind, arg) in specs {
        let variant = match kind.as_str() {
            "Asterisk" => V::Asterisk,
            "Boolean" => V::Boolean,
            "Colon" => V::Colon,
            "DoubleEquals" => V::DoubleEquals,
            "Else" => V::Else,
            "Equals" => V::Equals,
            "False" => V::False,
            "GreaterThan" => V::GreaterThan,
            "GreaterThanOrEqualTo" => V::GreaterThanOrEqualTo,
            "Identifier" => V::Identifier(&text[start..end]),
            "If" => V::If,
            "Integer" => V::Integer,
            "IntegerLiteral" => V::IntegerLiteral(arg.as_str().unwrap().parse::<BigInt>().unwrap()),
            "LeftCurly" => V::LeftCurly,
            "LeftParen" => V::LeftParen,
            "LessThan" => V::LessThan,
            "LessThanOrEqualTo" => V::LessThanOrEqualTo,
            "Minus" => V::Minus,
            "Plus" => V::Plus,
            "RightCurly" => V::RightCurly,
            "RightParen" => V::RightParen,
            "Slash" => V::Slash,
            "Terminator" => V::Terminator(if arg.as_str() == Some("LineBreak") { TerminatorType::LineBreak } else { TerminatorType::Semicolon }),
            "Then" => V::Then,
            "ThickArrow" => V::ThickArrow,
            "ThinArrow" => V::ThinArrow,
            "True" => V::True,
            "Type" => V::Type,
            _ => unreachable!(),
        };
        toks.push(token::Token { source_range: error::SourceRange { start, end }, variant });
    }
    (text, Box::leak(toks.into_boxed_slice()))
}

fn run_op(cmd: &Value) -> Value {
    let op = cmd["op"].as_str().unwrap_or("");
    let table = cmd.get("cells").cloned().unwrap_or(json!({}));
    let mut inp = In { table: &table, cells: HashMap::new() };
    match op {
        "signed_shift" => {
            let t = inp.term(&cmd["term"]);
            let r = de_bruijn::signed_shift(&t, cmd["cutoff"].as_u64().unwrap() as usize, cmd["amount"].as_i64().unwrap() as isize);
            let mut out = Out::new(&inp);
            let rj = r.map(|t| out.term(&t)).unwrap_or(Value::Null);
            json!({"result": rj, "cells": out.finish(&inp)})
        }
        "unsigned_shift" => {
            let t = inp.term(&cmd["term"]);
            let r = de_bruijn::unsigned_shift(&t, cmd["cutoff"].as_u64().unwrap() as usize, cmd["amount"].as_u64().unwrap() as usize);
            let mut out = Out::new(&inp);
            let rj = out.term(&r);
            json!({"result": rj, "cells": out.finish(&inp)})
        }
        "open" => {
            let t = inp.term(&cmd["term"]);
            let u = inp.term(&cmd["insert"]);
            let r = de_bruijn::open(&t, cmd["index"].as_u64().unwrap() as usize, &u, cmd["shift"].as_u64().unwrap() as usize);
            let mut out = Out::new(&inp);
            let rj = out.term(&r);
            json!({"result": rj, "cells": out.finish(&inp)})
        }
        "free_variables" => {
            let t = inp.term(&cmd["term"]);
            let mut s = std::collections::HashSet::new();
            term::free_variables(&t, cmd["cutoff"].as_u64().unwrap() as usize, &mut s);
            let mut v: Vec<usize> = s.into_iter().collect();
            v.sort_unstable();
            json!({"result": v})
        }
        "is_value" => {
            let t = inp.term(&cmd["term"]);
            json!({"result": evaluator::is_value(&t)})
        }
        "step" => {
            let t = inp.term(&cmd["term"]);
            let r = evaluator::step(&t);
            let mut out = Out::new(&inp);
            let rj = r.map(|t| out.term(&t)).unwrap_or(Value::Null);
            json!({"result": rj, "cells": out.finish(&inp)})
        }
        "evaluate" => {
            let t = inp.term(&cmd["term"]);
            let r = evaluator::evaluate(&t);
            let mut out = Out::new(&inp);
            match r {
                Ok(v) => {
                    let shown = v.to_string();
                    json!({"ok": out.term(&v), "shown": shown, "cells": out.finish(&inp)})
                }
                Err(e) => json!({"err": e.to_string()}),
            }
        }
        "steps" => {
            // iterate `step` up to a limit; report the final term and whether it is a value
            let mut t = inp.term(&cmd["term"]);
            let limit = cmd["limit"].as_u64().unwrap_or(1000);
            let mut n = 0;
            let mut exhausted = false;
            loop {
                if n >= limit {
                    exhausted = true;
                    break;
                }
                match evaluator::step(&t) {
                    Some(s) => {
                        t = s;
                        n += 1;
                    }
                    None => break,
                }
            }
            let mut out = Out::new(&inp);
            json!({"term": out.term(&t), "steps": n, "exhausted": exhausted, "is_value": evaluator::is_value(&t), "shown": t.to_string(), "cells": out.finish(&inp)})
        }
        "normalize_weak_head" => {
            let t = inp.term(&cmd["term"]);
            let mut ctx = defs_ctx(&mut inp, &cmd["defs_ctx"]);
            let r = normalizer::normalize_weak_head(&t, &mut ctx);
            let mut out = Out::new(&inp);
            let rj = out.term(&r);
            let cj = defs_ctx_out(&mut out, &ctx);
            json!({"result": rj, "defs_ctx": cj, "cells": out.finish(&inp)})
        }
        "syntactically_equal" => {
            let a = inp.term(&cmd["a"]);
            let b = inp.term(&cmd["b"]);
            json!({"result": equality::syntactically_equal(&a, &b)})
        }
        "unify" => {
            let a = inp.term(&cmd["a"]);
            let b = inp.term(&cmd["b"]);
            let mut ctx = defs_ctx(&mut inp, &cmd["defs_ctx"]);
            let r = unifier::unify(&a, &b, &mut ctx);
            let mut out = Out::new(&inp);
            let aj = out.term(&a);
            let bj = out.term(&b);
            let cj = defs_ctx_out(&mut out, &ctx);
            json!({"result": r, "a": aj, "b": bj, "defs_ctx": cj, "cells": out.finish(&inp)})
        }
        "type_check" => {
            let t = inp.term(&cmd["term"]);
            let mut tc = typing_ctx(&mut inp, &cmd["typing_ctx"]);
            let mut dc = defs_ctx(&mut inp, &cmd["defs_ctx"]);
            let src: &'static str = leak(cmd["source"].as_str().unwrap_or(""));
            let r = type_checker::type_check(None, src, &t, &mut tc, &mut dc);
            let mut out = Out::new(&inp);
            let tcj = typing_ctx_out(&mut out, &tc);
            let dcj = defs_ctx_out(&mut out, &dc);
            let mut res = match r {
                Ok((e, ty)) => {
                    let es = e.to_string();
                    let ts = ty.to_string();
                    let ej = out.term(&e);
                    let tj = out.term(&ty);
                    let mut run = Value::Null;
                    if cmd["run"].as_bool().unwrap_or(false) {
                        run = match evaluator::evaluate(&e) {
                            Ok(v) => json!({"ok": out.term(&v), "shown": v.to_string()}),
                            Err(er) => json!({"err": er.to_string()}),
                        };
                    }
                    json!({"ok": {"term": ej, "type": tj, "term_shown": es, "type_shown": ts, "run": run}})
                }
                Err(es) => json!({"err": errors_json(&es)}),
            };
            res["typing_ctx"] = tcj;
            res["defs_ctx"] = dcj;
            res["cells"] = out.finish(&inp);
            res
        }
        "check_definitions" => {
            let t = inp.term(&cmd["term"]);
            let src: &'static str = leak(cmd["source"].as_str().unwrap_or(""));
            let es = parser::shim_check_definitions(src, &t, cmd["depth"].as_u64().unwrap_or(0) as usize);
            json!({"errors": errors_json(&es)})
        }
        "reassociate" => {
            let r = parser::shim_reassociate(cmd["which"].as_str().unwrap_or("all"), &cmd["term"]);
            json!({"result": r})
        }
        "resolve" => {
            let src: &'static str = leak(cmd["source"].as_str().unwrap_or(""));
            let names: Vec<&'static str> = cmd["context"].as_array().map(|a| a.iter().map(|s| leak(s.as_str().unwrap())).collect()).unwrap_or_default();
            let (r, es, after) = parser::shim_resolve(src, &cmd["term"], &names);
            let mut out = Out::new(&inp);
            let rj = out.term(&r);
            json!({"result": rj, "errors": errors_json(&es), "context_after": after, "cells": out.finish(&inp)})
        }
        "tokenize" => {
            let src: &'static str = leak(cmd["source"].as_str().unwrap());
            match tokenizer::tokenize(None, src) {
                Ok(ts) => json!({"ok": ts.iter().map(token_json).collect::<Vec<_>>()}),
                Err(es) => json!({"err": errors_json(&es)}),
            }
        }
        "packrat" => {
            let (_text, toks) = tokens_from_json(&cmd["tokens"]);
            let (tree, next, nerr) = parser::shim_packrat(toks);
            json!({"tree": tree, "next": next, "nerrors": nerr, "len": toks.len()})
        }
        "parse_tokens" => {
            let (text, toks) = tokens_from_json(&cmd["tokens"]);
            let names: Vec<&'static str> = cmd["context"].as_array().map(|a| a.iter().map(|s| leak(s.as_str().unwrap())).collect()).unwrap_or_default();
            match parser::parse(None, text, toks, &names) {
                Ok(t) => {
                    let mut out = Out::new(&inp);
                    let tj = out.term(&t);
                    json!({"ok": tj, "shown": t.to_string(), "text": text, "cells": out.finish(&inp)})
                }
                Err(es) => json!({"err": errors_json(&es), "text": text}),
            }
        }
        "front_timed" => {
            // wall-clock time of `reps` runs of tokenize + parse on one text (C17's native confirmation)
            let src: &'static str = leak(cmd["source"].as_str().unwrap());
            let reps = cmd["reps"].as_u64().unwrap_or(1);
            let budget_ms = cmd["budget_ms"].as_u64().unwrap_or(30000) as u128;
            let t0 = std::time::Instant::now();
            let mut done = 0u64;
            for _ in 0..reps {
                if let Ok(ts) = tokenizer::tokenize(None, src) {
                    let toks: &'static [token::Token<'static>] = Box::leak(ts.into_boxed_slice());
                    let _ = parser::parse(None, src, toks, &[]);
                }
                done += 1;
                if t0.elapsed().as_millis() > budget_ms {
                    break;
                }
            }
            json!({"nanos": t0.elapsed().as_nanos() as u64, "reps": done})
        }
        "front" | "pipeline" => {
            let src: &'static str = leak(cmd["source"].as_str().unwrap());
            let toks = match tokenizer::tokenize(None, src) {
                Ok(ts) => ts,
                Err(es) => return json!({"stage": "tokenize", "err": errors_json(&es)}),
            };
            let toks: &'static [token::Token<'static>] = Box::leak(toks.into_boxed_slice());
            let names: Vec<&'static str> = cmd["context"].as_array().map(|a| a.iter().map(|s| leak(s.as_str().unwrap())).collect()).unwrap_or_default();
            let t = match parser::parse(None, src, toks, &names) {
                Ok(t) => t,
                Err(es) => return json!({"stage": "parse", "err": errors_json(&es), "tokens": toks.iter().map(token_json).collect::<Vec<_>>()}),
            };
            let mut out = Out::new(&inp);
            let tj = out.term(&t);
            if op == "front" {
                return json!({"stage": "parsed", "ok": tj, "shown": t.to_string(), "tokens": toks.iter().map(token_json).collect::<Vec<_>>(), "cells": out.finish(&inp)});
            }
            let mut tc = vec![];
            let mut dc = vec![];
            let (e, ty) = match type_checker::type_check(None, src, &t, &mut tc, &mut dc) {
                Ok(r) => r,
                Err(es) => return json!({"stage": "type_check", "err": errors_json(&es), "parsed": tj}),
            };
            let ej = out.term(&e);
            let tyj = out.term(&ty);
            let es = e.to_string();
            let tys = ty.to_string();
            let run = if cmd["run"].as_bool().unwrap_or(true) {
                let mut cur = e.clone();
                let limit = cmd["limit"].as_u64().unwrap_or(100000);
                let mut n = 0;
                let mut exhausted = false;
                loop {
                    if n >= limit {
                        exhausted = true;
                        break;
                    }
                    match evaluator::step(&cur) {
                        Some(s) => {
                            cur = s;
                            n += 1;
                        }
                        None => break,
                    }
                }
                json!({"term": out.term(&cur), "shown": cur.to_string(), "steps": n, "exhausted": exhausted, "is_value": evaluator::is_value(&cur)})
            } else {
                Value::Null
            };
            json!({"stage": "done", "parsed": tj, "term": ej, "type": tyj, "term_shown": es, "type_shown": tys, "run": run, "cells": out.finish(&inp)})
        }
        "listing" => {
            let src = cmd["source"].as_str().unwrap();
            let r = error::listing(src, error::SourceRange { start: cmd["start"].as_u64().unwrap() as usize, end: cmd["end"].as_u64().unwrap() as usize });
            json!({"result": r})
        }
        "char_info" => {
            let mut out = vec![];
            for c in cmd["chars"].as_array().unwrap() {
                let cp = c.as_u64().unwrap() as u32;
                match char::from_u32(cp) {
                    Some(ch) => out.push(json!({"cp": cp, "alphabetic": ch.is_alphabetic(), "alphanumeric": ch.is_alphanumeric(),
                        "whitespace": ch.is_whitespace(), "ascii_digit": ch.is_ascii_digit(), "len": ch.len_utf8()})),
                    None => out.push(json!({"cp": cp, "invalid": true})),
                }
            }
            json!({"result": out})
        }
        "grapheme_next" => {
            let src = cmd["source"].as_str().unwrap();
            let i = cmd["offset"].as_u64().unwrap() as usize;
            let mut cursor = unicode_segmentation::GraphemeCursor::new(i, src.len(), true);
            let r = cursor.next_boundary(src, 0);
            match r {
                Ok(Some(e)) => json!({"result": e}),
                Ok(None) => json!({"result": Value::Null}),
                Err(e) => json!({"error": format!("{e:?}")}),
            }
        }
        "show" => {
            let t = inp.term(&cmd["term"]);
            json!({"result": t.to_string()})
        }
        "ping" => json!({"pong": true}),
        other => json!({"error": format!("unknown op {other}")}),
    }
}

fn main() {
    colored::control::set_override(false);
    std::panic::set_hook(Box::new(|_| {}));
    let stdin = std::io::stdin();
    let stdout = std::io::stdout();
    for line in stdin.lock().lines() {
        let line = match line {
            Ok(l) => l,
            Err(_) => break,
        };
        if line.trim().is_empty() {
            continue;
        }
        let cmd: Value = match serde_json::from_str(&line) {
            Ok(v) => v,
            Err(e) => {
                let mut o = stdout.lock();
                let _ = writeln!(o, "{}", json!({"error": format!("bad json: {e}")}));
                let _ = o.flush();
                continue;
            }
        };
        // Run each command on a thread with the same stack size as gram's main thread, so that stack
        // exhaustion of the real code is observed (as a crash of this process) at the same depth.
        let handle = std::thread::Builder::new()
            .stack_size(16 * 1024 * 1024)
            .spawn(move || {
                let r = std::panic::catch_unwind(std::panic::AssertUnwindSafe(|| run_op(&cmd)));
                match r {
                    Ok(v) => v,
                    Err(p) => {
                        let msg = if let Some(s) = p.downcast_ref::<&str>() {
                            (*s).to_owned()
                        } else if let Some(s) = p.downcast_ref::<String>() {
                            s.clone()
                        } else {
                            "panic".to_owned()
                        };
                        json!({"panic": msg})
                    }
                }
            })
            .unwrap();
        let v = handle.join().unwrap_or_else(|_| json!({"panic": "thread"}));
        let mut o = stdout.lock();
        let _ = writeln!(o, "{v}");
        let _ = o.flush();
    }
}
