/* LD_PRELOAD shim: CPython 3.11 allocates and frees its 16 KiB frame-stack chunks with mmap/munmap
 * every time the recursion depth crosses a chunk boundary.  gramsym's interpreter recurses deeply,
 * which costs ~7000 mmap/munmap pairs per second and, on this VM, serialises parallel workers in the
 * kernel.  This shim keeps such chunks in a free list instead of returning them to the kernel.
 * Only regions that were handed out by a matching anonymous 16 KiB mmap are ever cached. */
#define _GNU_SOURCE
#include <dlfcn.h>
#include <stddef.h>
#include <stdint.h>
#include <string.h>
#include <sys/mman.h>

#define SZ 16384
#define MAXC 8192
#define TAB 65536

static void *(*real_mmap)(void *, size_t, int, int, int, off_t);
static int (*real_munmap)(void *, size_t);
static void *cache[MAXC];
static int ncache;
static uintptr_t tab[TAB];
static volatile int lock_;

static void lock(void) { while (__atomic_exchange_n(&lock_, 1, __ATOMIC_ACQUIRE)) { } }
static void unlock(void) { __atomic_store_n(&lock_, 0, __ATOMIC_RELEASE); }

static int tab_find(uintptr_t a) {
    unsigned h = (unsigned)((a >> 14) * 2654435761u) % TAB;
    for (int i = 0; i < 64; i++) {
        unsigned k = (h + i) % TAB;
        if (tab[k] == a) return (int)k;
        if (tab[k] == 0) return -1;
    }
    return -1;
}

static void tab_add(uintptr_t a) {
    unsigned h = (unsigned)((a >> 14) * 2654435761u) % TAB;
    for (int i = 0; i < 64; i++) {
        unsigned k = (h + i) % TAB;
        if (tab[k] == a) return;
        if (tab[k] == 0 || tab[k] == 1) { tab[k] = a; return; }
    }
}

void *mmap(void *addr, size_t len, int prot, int flags, int fd, off_t off) {
    if (!real_mmap) real_mmap = (void *(*)(void *, size_t, int, int, int, off_t))dlsym(RTLD_NEXT, "mmap");
    int ours = addr == NULL && len == SZ && fd == -1 && (flags & MAP_ANONYMOUS) && (flags & MAP_PRIVATE) &&
               prot == (PROT_READ | PROT_WRITE);
    if (ours) {
        lock();
        if (ncache > 0) {
            void *p = cache[--ncache];
            unlock();
            memset(p, 0, SZ);
            return p;
        }
        unlock();
    }
    void *p = real_mmap(addr, len, prot, flags, fd, off);
    if (ours && p != MAP_FAILED) {
        lock();
        tab_add((uintptr_t)p);
        unlock();
    }
    return p;
}

void *mmap64(void *addr, size_t len, int prot, int flags, int fd, off_t off) {
    return mmap(addr, len, prot, flags, fd, off);
}

int munmap(void *addr, size_t len) {
    if (!real_munmap) real_munmap = (int (*)(void *, size_t))dlsym(RTLD_NEXT, "munmap");
    if (len == SZ) {
        lock();
        int k = tab_find((uintptr_t)addr);
        if (k >= 0) {
            if (ncache < MAXC) {
                cache[ncache++] = addr;
                unlock();
                return 0;
            }
            tab[k] = 1; /* tombstone */
        }
        unlock();
    }
    return real_munmap(addr, len);
}
