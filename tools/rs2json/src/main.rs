// rs2json: export the items of Rust source files as a plain JSON tree for the gramsym symbolic
// executor. Usage: rs2json <file.rs>... ; writes one JSON object {file: {items: [...]}} to stdout.
//
// * `macro_rules!` macros defined in a file (single rule, `$x:expr` / `$x:ident` fragments) are
//   expanded by token substitution at every invocation in that file, so the executor sees the code
//   the compiler sees.
// * `format!`, `vec!`, `panic!`, `assert_eq!`, `assert!`, `write!`, `println!`, `defer!` are kept as
//   named built-ins with parsed arguments.
// * `#[cfg(test)]` items are skipped.

use proc_macro2::{Delimiter, Group, Spacing, TokenStream, TokenTree};
use quote::ToTokens;
use serde_json::{json, Map, Value};
use std::collections::HashMap;
use syn::{punctuated::Punctuated, spanned::Spanned, Token};

struct MacroDef {
    params: Vec<(String, String)>,
    body: TokenStream,
}

struct Cx {
    macros: HashMap<String, MacroDef>,
}

fn line<T: Spanned>(t: &T) -> usize {
    t.span().start().line
}

fn ts<T: ToTokens>(t: &T) -> String {
    t.to_token_stream().to_string()
}

fn path_segments(p: &syn::Path) -> Vec<String> {
    p.segments.iter().map(|s| s.ident.to_string()).collect()
}

fn path_generic_args(p: &syn::Path) -> Vec<String> {
    let mut out = vec![];
    for s in &p.segments {
        if let syn::PathArguments::AngleBracketed(a) = &s.arguments {
            for g in &a.args {
                out.push(ts(g));
            }
        }
    }
    out
}

fn lit(l: &syn::Lit) -> Value {
    match l {
        syn::Lit::Str(s) => json!({"k":"Str","v":s.value()}),
        syn::Lit::Char(c) => json!({"k":"Char","v":(c.value() as u32)}),
        syn::Lit::Int(i) => json!({"k":"Int","v":i.base10_digits(),"suffix":i.suffix()}),
        syn::Lit::Bool(b) => json!({"k":"Bool","v":b.value}),
        other => json!({"k":"OtherLit","v":ts(other)}),
    }
}

fn parse_macro_def(tokens: TokenStream) -> Option<MacroDef> {
    // Expect: ( matcher ) => { body } [;]
    let tts: Vec<TokenTree> = tokens.into_iter().collect();
    let matcher = match tts.first()? {
        TokenTree::Group(g) => g.stream(),
        _ => return None,
    };
    // find body group: after `=>`
    let mut body = None;
    let mut rules = 0;
    for (i, t) in tts.iter().enumerate() {
        if let TokenTree::Punct(p) = t {
            if p.as_char() == '=' {
                if let Some(TokenTree::Punct(q)) = tts.get(i + 1) {
                    if q.as_char() == '>' {
                        if let Some(TokenTree::Group(g)) = tts.get(i + 2) {
                            rules += 1;
                            if body.is_none() {
                                body = Some(g.stream());
                            }
                        }
                    }
                }
            }
        }
    }
    if rules != 1 {
        return None;
    }
    // parse matcher params: `$name:frag`
    let m: Vec<TokenTree> = matcher.into_iter().collect();
    let mut params = vec![];
    let mut i = 0;
    while i < m.len() {
        if let TokenTree::Punct(p) = &m[i] {
            if p.as_char() == '$' {
                if let (Some(TokenTree::Ident(name)), Some(TokenTree::Punct(c)), Some(TokenTree::Ident(frag))) =
                    (m.get(i + 1), m.get(i + 2), m.get(i + 3))
                {
                    if c.as_char() == ':' {
                        params.push((name.to_string(), frag.to_string()));
                        i += 4;
                        continue;
                    }
                }
            }
        }
        i += 1;
    }
    Some(MacroDef { params, body: body? })
}

fn split_top_level_commas(tokens: TokenStream) -> Vec<TokenStream> {
    let mut out = vec![];
    let mut cur = TokenStream::new();
    for t in tokens {
        match &t {
            TokenTree::Punct(p) if p.as_char() == ',' && p.spacing() == Spacing::Alone => {
                out.push(std::mem::take(&mut cur));
            }
            _ => cur.extend(std::iter::once(t)),
        }
    }
    if !cur.is_empty() {
        out.push(cur);
    }
    out
}

fn substitute(body: TokenStream, args: &HashMap<String, (String, TokenStream)>) -> TokenStream {
    let tts: Vec<TokenTree> = body.into_iter().collect();
    let mut out = TokenStream::new();
    let mut i = 0;
    while i < tts.len() {
        match &tts[i] {
            TokenTree::Punct(p) if p.as_char() == '$' => {
                if let Some(TokenTree::Ident(name)) = tts.get(i + 1) {
                    if let Some((frag, arg)) = args.get(&name.to_string()) {
                        if frag == "expr" {
                            let g = Group::new(Delimiter::Parenthesis, arg.clone());
                            out.extend(std::iter::once(TokenTree::Group(g)));
                        } else {
                            out.extend(arg.clone());
                        }
                        i += 2;
                        continue;
                    }
                }
                out.extend(std::iter::once(tts[i].clone()));
                i += 1;
            }
            TokenTree::Group(g) => {
                let inner = substitute(g.stream(), args);
                let mut ng = Group::new(g.delimiter(), inner);
                ng.set_span(g.span());
                out.extend(std::iter::once(TokenTree::Group(ng)));
                i += 1;
            }
            t => {
                out.extend(std::iter::once(t.clone()));
                i += 1;
            }
        }
    }
    out
}

fn mac(m: &syn::Macro, cx: &Cx, ln: usize) -> Value {
    let name = path_segments(&m.path).join("::");
    if let Some(def) = cx.macros.get(&name) {
        let parts = split_top_level_commas(m.tokens.clone());
        let mut args = HashMap::new();
        for (i, (pname, frag)) in def.params.iter().enumerate() {
            if let Some(a) = parts.get(i) {
                args.insert(pname.clone(), (frag.clone(), a.clone()));
            }
        }
        let expanded = substitute(def.body.clone(), &args);
        // The bodies are written `{{ ... }}`: the outer brace belongs to macro_rules, so what we have
        // is `{ ... }`, a block expression.
        match syn::parse2::<syn::Expr>(expanded.clone()) {
            Ok(e) => {
                return json!({"k":"MacroExpansion","name":name,"l":ln,"e":expr(&e, cx)});
            }
            Err(err) => {
                return json!({"k":"Unsupported","what":format!("macro expansion of {name} failed: {err}"),"l":ln,"src":expanded.to_string()});
            }
        }
    }
    match name.as_str() {
        "defer" => {
            // defer! {{ stmts }}  -> tokens are `{ stmts }`
            match syn::parse2::<syn::Block>(m.tokens.clone()) {
                Ok(b) => json!({"k":"Defer","l":ln,"body":block(&b, cx)}),
                Err(_) => {
                    let wrapped = TokenTree::Group(Group::new(Delimiter::Brace, m.tokens.clone()));
                    match syn::parse2::<syn::Block>(std::iter::once(wrapped).collect()) {
                        Ok(b) => json!({"k":"Defer","l":ln,"body":block(&b, cx)}),
                        Err(e) => json!({"k":"Unsupported","what":format!("defer parse: {e}"),"l":ln}),
                    }
                }
            }
        }
        _ => {
            // vec![x; n] form
            let parser = Punctuated::<syn::Expr, Token![,]>::parse_terminated;
            match syn::parse::Parser::parse2(parser, m.tokens.clone()) {
                Ok(args) => {
                    let a: Vec<Value> = args.iter().map(|e| expr(e, cx)).collect();
                    json!({"k":"MacroCall","name":name,"l":ln,"args":a})
                }
                Err(_) => json!({"k":"MacroCall","name":name,"l":ln,"args":[],"raw":m.tokens.to_string()}),
            }
        }
    }
}

fn block(b: &syn::Block, cx: &Cx) -> Value {
    let stmts: Vec<Value> = b.stmts.iter().map(|s| stmt(s, cx)).collect();
    json!({"k":"Block","l":line(b),"stmts":stmts})
}

fn stmt(s: &syn::Stmt, cx: &Cx) -> Value {
    match s {
        syn::Stmt::Local(l) => {
            let (init, els) = match &l.init {
                Some(i) => (
                    expr(&i.expr, cx),
                    i.diverge.as_ref().map(|(_, e)| expr(e, cx)).unwrap_or(Value::Null),
                ),
                None => (Value::Null, Value::Null),
            };
            json!({"k":"Let","l":line(l),"pat":pat(&l.pat, cx),"init":init,"else":els})
        }
        syn::Stmt::Item(i) => json!({"k":"ItemStmt","l":line(i),"item":item(i, cx)}),
        syn::Stmt::Expr(e, semi) => json!({"k":"ExprStmt","l":line(e),"e":expr(e, cx),"semi":semi.is_some()}),
        syn::Stmt::Macro(m) => {
            json!({"k":"ExprStmt","l":line(m),"e":mac(&m.mac, cx, line(m)),"semi":m.semi_token.is_some()})
        }
    }
}

fn pat(p: &syn::Pat, cx: &Cx) -> Value {
    match p {
        syn::Pat::Ident(i) => json!({"k":"PIdent","name":i.ident.to_string(),"by_ref":i.by_ref.is_some(),"mut":i.mutability.is_some(),
            "sub": i.subpat.as_ref().map(|(_, s)| pat(s, cx)).unwrap_or(Value::Null)}),
        syn::Pat::Wild(_) => json!({"k":"PWild"}),
        syn::Pat::Lit(l) => json!({"k":"PLit","lit":lit(&l.lit)}),
        syn::Pat::Or(o) => json!({"k":"POr","cases":o.cases.iter().map(|c| pat(c, cx)).collect::<Vec<_>>()}),
        syn::Pat::Paren(pp) => pat(&pp.pat, cx),
        syn::Pat::Path(pp) => json!({"k":"PPath","path":path_segments(&pp.path)}),
        syn::Pat::Range(r) => json!({"k":"PRange",
            "lo": r.start.as_ref().map(|e| expr(e, cx)).unwrap_or(Value::Null),
            "hi": r.end.as_ref().map(|e| expr(e, cx)).unwrap_or(Value::Null),
            "inclusive": matches!(r.limits, syn::RangeLimits::Closed(_))}),
        syn::Pat::Reference(r) => json!({"k":"PRef","mut":r.mutability.is_some(),"pat":pat(&r.pat, cx)}),
        syn::Pat::Struct(s) => {
            let fields: Vec<Value> = s.fields.iter().map(|f| json!({"name":ts(&f.member),"pat":pat(&f.pat, cx)})).collect();
            json!({"k":"PStruct","path":path_segments(&s.path),"fields":fields,"rest":s.rest.is_some()})
        }
        syn::Pat::Tuple(t) => json!({"k":"PTuple","elems":t.elems.iter().map(|e| pat(e, cx)).collect::<Vec<_>>()}),
        syn::Pat::TupleStruct(t) => json!({"k":"PTupleStruct","path":path_segments(&t.path),
            "elems":t.elems.iter().map(|e| pat(e, cx)).collect::<Vec<_>>()}),
        syn::Pat::Type(t) => json!({"k":"PType","pat":pat(&t.pat, cx),"ty":ts(&t.ty)}),
        syn::Pat::Rest(_) => json!({"k":"PRest"}),
        syn::Pat::Slice(s) => json!({"k":"PSlice","elems":s.elems.iter().map(|e| pat(e, cx)).collect::<Vec<_>>()}),
        other => json!({"k":"Unsupported","what":format!("pattern {}", ts(other))}),
    }
}

fn binop(op: &syn::BinOp) -> &'static str {
    use syn::BinOp::*;
    match op {
        Add(_) => "+", Sub(_) => "-", Mul(_) => "*", Div(_) => "/", Rem(_) => "%",
        And(_) => "&&", Or(_) => "||", BitXor(_) => "^", BitAnd(_) => "&", BitOr(_) => "|",
        Shl(_) => "<<", Shr(_) => ">>", Eq(_) => "==", Lt(_) => "<", Le(_) => "<=", Ne(_) => "!=",
        Ge(_) => ">=", Gt(_) => ">", AddAssign(_) => "+=", SubAssign(_) => "-=", MulAssign(_) => "*=",
        DivAssign(_) => "/=", RemAssign(_) => "%=", BitXorAssign(_) => "^=", BitAndAssign(_) => "&=",
        BitOrAssign(_) => "|=", ShlAssign(_) => "<<=", ShrAssign(_) => ">>=",
        _ => "?",
    }
}

fn opt_expr(e: &Option<Box<syn::Expr>>, cx: &Cx) -> Value {
    e.as_ref().map(|e| expr(e, cx)).unwrap_or(Value::Null)
}

fn expr(e: &syn::Expr, cx: &Cx) -> Value {
    let ln = line(e);
    match e {
        syn::Expr::Array(a) => json!({"k":"Array","l":ln,"elems":a.elems.iter().map(|x| expr(x, cx)).collect::<Vec<_>>()}),
        syn::Expr::Assign(a) => json!({"k":"Assign","l":ln,"lhs":expr(&a.left, cx),"rhs":expr(&a.right, cx)}),
        syn::Expr::Binary(b) => json!({"k":"Binary","l":ln,"op":binop(&b.op),"lhs":expr(&b.left, cx),"rhs":expr(&b.right, cx)}),
        syn::Expr::Block(b) => block(&b.block, cx),
        syn::Expr::Break(b) => json!({"k":"Break","l":ln,"e":opt_expr(&b.expr, cx)}),
        syn::Expr::Call(c) => json!({"k":"Call","l":ln,"f":expr(&c.func, cx),"args":c.args.iter().map(|x| expr(x, cx)).collect::<Vec<_>>()}),
        syn::Expr::Cast(c) => json!({"k":"Cast","l":ln,"e":expr(&c.expr, cx),"ty":ts(&c.ty)}),
        syn::Expr::Closure(c) => json!({"k":"Closure","l":ln,"move":c.capture.is_some(),
            "params":c.inputs.iter().map(|p| pat(p, cx)).collect::<Vec<_>>(),"body":expr(&c.body, cx)}),
        syn::Expr::Continue(_) => json!({"k":"Continue","l":ln}),
        syn::Expr::Field(f) => json!({"k":"Field","l":ln,"e":expr(&f.base, cx),"name":ts(&f.member)}),
        syn::Expr::ForLoop(f) => json!({"k":"For","l":ln,"pat":pat(&f.pat, cx),"iter":expr(&f.expr, cx),"body":block(&f.body, cx)}),
        syn::Expr::Group(g) => expr(&g.expr, cx),
        syn::Expr::If(i) => json!({"k":"If","l":ln,"cond":expr(&i.cond, cx),"then":block(&i.then_branch, cx),
            "else": i.else_branch.as_ref().map(|(_, e)| expr(e, cx)).unwrap_or(Value::Null)}),
        syn::Expr::Index(i) => json!({"k":"Index","l":ln,"e":expr(&i.expr, cx),"idx":expr(&i.index, cx)}),
        syn::Expr::Let(l) => json!({"k":"LetCond","l":ln,"pat":pat(&l.pat, cx),"e":expr(&l.expr, cx)}),
        syn::Expr::Lit(l) => { let mut v = lit(&l.lit); v["l"] = json!(ln); json!({"k":"Lit","l":ln,"lit":v}) }
        syn::Expr::Loop(l) => json!({"k":"Loop","l":ln,"body":block(&l.body, cx)}),
        syn::Expr::Macro(m) => mac(&m.mac, cx, ln),
        syn::Expr::Match(m) => {
            let arms: Vec<Value> = m.arms.iter().map(|a| json!({
                "l": line(a),
                "pat": pat(&a.pat, cx),
                "guard": a.guard.as_ref().map(|(_, g)| expr(g, cx)).unwrap_or(Value::Null),
                "body": expr(&a.body, cx)})).collect();
            json!({"k":"Match","l":ln,"e":expr(&m.expr, cx),"arms":arms})
        }
        syn::Expr::MethodCall(m) => json!({"k":"MethodCall","l":ln,"recv":expr(&m.receiver, cx),"method":m.method.to_string(),
            "turbofish": m.turbofish.as_ref().map(|t| ts(t)).unwrap_or_default(),
            "args":m.args.iter().map(|x| expr(x, cx)).collect::<Vec<_>>()}),
        syn::Expr::Paren(p) => expr(&p.expr, cx),
        syn::Expr::Path(p) => json!({"k":"Path","l":ln,"path":path_segments(&p.path),"generics":path_generic_args(&p.path)}),
        syn::Expr::Range(r) => json!({"k":"Range","l":ln,"lo":opt_expr(&r.start, cx),"hi":opt_expr(&r.end, cx),
            "inclusive": matches!(r.limits, syn::RangeLimits::Closed(_))}),
        syn::Expr::Reference(r) => json!({"k":"Ref","l":ln,"mut":r.mutability.is_some(),"e":expr(&r.expr, cx)}),
        syn::Expr::Return(r) => json!({"k":"Return","l":ln,"e":opt_expr(&r.expr, cx)}),
        syn::Expr::Struct(s) => {
            let fields: Vec<Value> = s.fields.iter().map(|f| json!({"name":ts(&f.member),"e":expr(&f.expr, cx)})).collect();
            json!({"k":"Struct","l":ln,"path":path_segments(&s.path),"fields":fields,
                "rest": s.rest.as_ref().map(|r| expr(r, cx)).unwrap_or(Value::Null)})
        }
        syn::Expr::Try(t) => json!({"k":"Try","l":ln,"e":expr(&t.expr, cx)}),
        syn::Expr::Tuple(t) => json!({"k":"Tuple","l":ln,"elems":t.elems.iter().map(|x| expr(x, cx)).collect::<Vec<_>>()}),
        syn::Expr::Unary(u) => {
            let op = match u.op { syn::UnOp::Deref(_) => "*", syn::UnOp::Not(_) => "!", syn::UnOp::Neg(_) => "-", _ => "?" };
            json!({"k":"Unary","l":ln,"op":op,"e":expr(&u.expr, cx)})
        }
        syn::Expr::While(w) => json!({"k":"While","l":ln,"cond":expr(&w.cond, cx),"body":block(&w.body, cx)}),
        other => json!({"k":"Unsupported","l":ln,"what":format!("expr {}", ts(other))}),
    }
}

fn is_cfg_test(attrs: &[syn::Attribute]) -> bool {
    attrs.iter().any(|a| a.path().is_ident("cfg") && ts(a).contains("test"))
}

fn fn_sig(sig: &syn::Signature, cx: &Cx) -> (Vec<Value>, String) {
    let params: Vec<Value> = sig
        .inputs
        .iter()
        .map(|a| match a {
            syn::FnArg::Receiver(r) => json!({"pat":{"k":"PIdent","name":"self","by_ref":false,"mut":false,"sub":null},"ty":ts(r)}),
            syn::FnArg::Typed(t) => json!({"pat":pat(&t.pat, cx),"ty":ts(&t.ty)}),
        })
        .collect();
    let ret = match &sig.output {
        syn::ReturnType::Default => String::new(),
        syn::ReturnType::Type(_, t) => ts(t),
    };
    (params, ret)
}

fn item(i: &syn::Item, cx: &Cx) -> Value {
    match i {
        syn::Item::Fn(f) => {
            let (params, ret) = fn_sig(&f.sig, cx);
            json!({"k":"Fn","l":line(f),"end_l":f.block.span().end().line,"name":f.sig.ident.to_string(),"params":params,"ret":ret,
                "vis": ts(&f.vis), "body":block(&f.block, cx)})
        }
        syn::Item::Const(c) => json!({"k":"Const","l":line(c),"name":c.ident.to_string(),"ty":ts(&c.ty),"e":expr(&c.expr, cx)}),
        syn::Item::Enum(e) => {
            let variants: Vec<Value> = e.variants.iter().map(|v| {
                let fields: Vec<String> = v.fields.iter().map(|f| ts(&f.ty)).collect();
                json!({"name":v.ident.to_string(),"fields":fields})
            }).collect();
            json!({"k":"Enum","l":line(e),"name":e.ident.to_string(),"variants":variants})
        }
        syn::Item::Struct(s) => {
            let fields: Vec<Value> = s.fields.iter().enumerate().map(|(n, f)| json!({
                "name": f.ident.as_ref().map(|i| i.to_string()).unwrap_or(n.to_string()), "ty": ts(&f.ty)})).collect();
            json!({"k":"StructDef","l":line(s),"name":s.ident.to_string(),"fields":fields})
        }
        syn::Item::Impl(im) => {
            let fns: Vec<Value> = im.items.iter().filter_map(|ii| match ii {
                syn::ImplItem::Fn(f) => {
                    let (params, ret) = fn_sig(&f.sig, cx);
                    Some(json!({"k":"Fn","l":line(f),"end_l":f.block.span().end().line,"name":f.sig.ident.to_string(),"params":params,"ret":ret,
                        "body":block(&f.block, cx)}))
                }
                _ => None,
            }).collect();
            json!({"k":"Impl","l":line(im),"self_ty":ts(&im.self_ty),
                "trait": im.trait_.as_ref().map(|(_, p, _)| path_segments(p).join("::")).unwrap_or_default(),"fns":fns})
        }
        syn::Item::Macro(m) => json!({"k":"MacroDef","l":line(m),"name":m.ident.as_ref().map(|i| i.to_string()).unwrap_or_default()}),
        syn::Item::Use(u) => json!({"k":"Use","l":line(u),"tree":ts(&u.tree)}),
        syn::Item::Type(t) => json!({"k":"TypeAlias","l":line(t),"name":t.ident.to_string(),"ty":ts(&t.ty)}),
        syn::Item::Mod(m) => json!({"k":"Mod","l":line(m),"name":m.ident.to_string()}),
        syn::Item::Trait(t) => json!({"k":"Trait","l":line(t),"name":t.ident.to_string()}),
        other => json!({"k":"OtherItem","l":line(other)}),
    }
}

fn item_attrs(i: &syn::Item) -> &[syn::Attribute] {
    match i {
        syn::Item::Fn(f) => &f.attrs,
        syn::Item::Mod(m) => &m.attrs,
        syn::Item::Impl(m) => &m.attrs,
        syn::Item::Const(m) => &m.attrs,
        syn::Item::Enum(m) => &m.attrs,
        syn::Item::Struct(m) => &m.attrs,
        syn::Item::Use(m) => &m.attrs,
        syn::Item::Macro(m) => &m.attrs,
        _ => &[],
    }
}

fn main() {
    let mut out = Map::new();
    for path in std::env::args().skip(1) {
        let src = std::fs::read_to_string(&path).unwrap_or_else(|e| panic!("read {path}: {e}"));
        let file = syn::parse_file(&src).unwrap_or_else(|e| panic!("parse {path}: {e}"));
        let mut cx = Cx { macros: HashMap::new() };
        let mut undefinable = vec![];
        for it in &file.items {
            if let syn::Item::Macro(m) = it {
                if m.mac.path.is_ident("macro_rules") {
                    if let Some(name) = &m.ident {
                        match parse_macro_def(m.mac.tokens.clone()) {
                            Some(d) => {
                                cx.macros.insert(name.to_string(), d);
                            }
                            None => undefinable.push(name.to_string()),
                        }
                    }
                }
            }
        }
        let items: Vec<Value> = file
            .items
            .iter()
            .filter(|i| !is_cfg_test(item_attrs(i)))
            .map(|i| item(i, &cx))
            .collect();
        let stem = std::path::Path::new(&path).file_stem().unwrap().to_string_lossy().to_string();
        out.insert(stem, json!({"path":path,"items":items,"unexpanded_macros":undefinable}));
    }
    println!("{}", Value::Object(out));
}
