#!/bin/sh
# tools/seedrun.sh <tree with a seeded change> <check id>...: run the quick tier of the named checks
# against another tree (GRAM_REPO), without touching evidence; one summary line per check.
cd "$(dirname "$0")/.."
wt="$1"; shift
tag=$(basename "$wt")
for c in "$@"; do
  s=$(date +%s)
  GRAM_REPO="$wt" timeout ${SEEDRUN_CAP:-2400} ./check $c --tier ${SEEDRUN_TIER:-quick} --no-evidence --jobs ${SEEDRUN_JOBS:-6} > /tmp/seedrun_${tag}_$c.log 2>&1
  rc=$?
  e=$(date +%s)
  echo "$tag $c rc=$rc $((e-s))s $(grep -c '^VIOLATION' /tmp/seedrun_${tag}_$c.log) violations; $(grep -m1 -A1 '^VIOLATION' /tmp/seedrun_${tag}_$c.log | tail -1 | cut -c1-220)" >> /tmp/seedrun.log
done
