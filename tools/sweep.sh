#!/bin/sh
# Run the thorough tier of every check in sequence; one log per check and a summary line each.
cd "$(dirname "$0")/.."
OUT=${SWEEP_OUT:-/tmp}
for c in ${SWEEP_IDS:-C14 C07 C15 C16 C19 C09 C10 C08 C13 C12 C06 C02 C01 C04 C18 C03 C05 C11 C17}; do
  s=$(date +%s)
  timeout ${SWEEP_CAP:-3300} ./check $c --tier ${SWEEP_TIER:-thorough} --no-evidence > $OUT/th_$c.log 2>&1
  rc=$?
  e=$(date +%s)
  echo "$c rc=$rc $((e-s))s" >> $OUT/sweep.log
done
